#!/bin/bash
# Offline setup: build the harness once (warms the Go build cache). Everything
# is rebuilt from /repo's working tree by each check anyway.
set -eu
cd "$(dirname "$0")/.."
export GOFLAGS=-mod=mod GOPROXY=off GOTOOLCHAIN=auto
unset GOSUMDB
mkdir -p bin evidence replays
go build -tags verif -o bin/vsim ./cmd/vsim
echo "setup ok"
