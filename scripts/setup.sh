#!/bin/bash
# Offline setup: builds the harness once in every flavour the checks use (plain, instrumented,
# race-instrumented) so that the Go build cache is warm. Nothing built here is used by the
# checks: each check rebuilds from /repo's current working tree into its own scratch directory.
set -u
cd "$(dirname "$0")/.." || exit 2
VERIF="$(pwd)"; REPO=/repo
export GOFLAGS=-mod=mod GOPROXY=off GOTOOLCHAIN=auto
unset GOSUMDB
mkdir -p bin evidence replays
go build -tags verif -o bin/vsim ./cmd/vsim || exit 2
SCRATCH="$(mktemp -d "${TMPDIR:-/tmp}/verif-setup-XXXXXX")" || exit 2
trap 'rm -rf "$SCRATCH"' EXIT
. scripts/build.sh "$SCRATCH" 1 || exit 2
echo "setup ok (mode=$MODE)"
