#!/bin/bash
# runs every claimed check's quick command sequentially; prints one line per check
cd "$(dirname "$0")/.."
for id in $(python3 -c "import json;print(' '.join(c['property_id'] for c in json.load(open('MANIFEST.json'))['checks']))"); do
  s=$(date +%s); out=$(scripts/check.sh $id ${1:-quick} 2>&1); rc=$?; e=$(date +%s)
  echo "$id rc=$rc $((e-s))s $(echo "$out" | grep -E '^(VIOLATION|KNOWN|HARNESS|BUILD|WORKER|NOT-CONF)' | head -3 | tr '\n' ' ' | cut -c1-300)"
done
