#!/bin/bash
# check.sh <property> [quick|thorough]
# Rebuilds everything from /repo's current working tree:
#   1. instruments a scratch copy of /repo (every concurrency construct goes behind the
#      deterministic scheduler) and builds the harness against it with hooks on (-tags verif);
#      if a changed /repo uses a construct the instrumenter does not support, the harness is
#      built against /repo itself instead (real goroutines; noted in the output);
#   2. for C12 and C20 also a -race build of the instrumented harness (second pass);
#   3. runs the seeded simulation for one property and writes evidence/<id>.json.
# exit 0 held / 1 VIOLATION / 2 harness or build trouble (never a VIOLATION).
set -u
ID="$1"; TIER="${2:-${VERIF_TIER:-quick}}"
cd "$(dirname "$0")/.." || exit 2
VERIF="$(pwd)"
REPO="${REPO_DIR:-/repo}"   # the tree under check (seed_check.sh points this at a scratch worktree)
export GOFLAGS=-mod=mod GOPROXY=off GOTOOLCHAIN=auto
unset GOSUMDB
SCRATCH="$(mktemp -d "${TMPDIR:-/tmp}/verif-$ID-XXXXXX")" || exit 2
trap 'rm -rf "$SCRATCH"' EXIT
RACE=0; { [ "$ID" = C12 ] || [ "$ID" = C20 ]; } && RACE=1
. scripts/build.sh "$SCRATCH" $RACE || exit 2
export TMPDIR="$SCRATCH"
"$BIN" check -prop "$ID" -tier "$TIER" -verif "${VERIF_OUT:-$VERIF}" -mode "$MODE" ${RACEBIN:+-racebin "$RACEBIN"} ${VSIM_ARGS:-}
exit $?
