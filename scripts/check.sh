#!/bin/bash
# check.sh <property> [quick|thorough]
# Rebuilds everything from /repo's current working tree:
#   1. instruments a scratch copy of /repo (every concurrency construct goes behind the
#      deterministic scheduler) and builds the harness against it with hooks on (-tags verif);
#      if a changed /repo uses a construct the instrumenter does not support, the harness is
#      built against /repo itself instead (real goroutines; noted in the output);
#   2. for C12 also a -race build of the instrumented harness;
#   3. runs the seeded simulation for one property and writes evidence/<id>.json.
# exit 0 held / 1 VIOLATION / 2 harness or build trouble (never a VIOLATION).
set -u
ID="$1"; TIER="${2:-${VERIF_TIER:-quick}}"
cd "$(dirname "$0")/.." || exit 2
VERIF="$(pwd)"
REPO="${REPO_DIR:-/repo}"   # the tree under check (seed_check.sh points this at a scratch worktree)
export GOFLAGS=-mod=mod GOPROXY=off GOTOOLCHAIN=auto
unset GOSUMDB
SCRATCH="$(mktemp -d "${TMPDIR:-/tmp}/verif-$ID-XXXXXX")" || exit 2
trap 'rm -rf "$SCRATCH"' EXIT
BIN="$SCRATCH/vsim"; RACEBIN=""
MODE=instrumented
if go build -o "$SCRATCH/instr" ./instr >"$SCRATCH/instr-build.log" 2>&1 \
   && "$SCRATCH/instr" -src "$REPO" -dst "$SCRATCH/repo" -simrt "$VERIF/simrt" >"$SCRATCH/instr.log" 2>&1; then
  sed -e "s#=> /repo#=> $SCRATCH/repo#" -e "s#=> ./simrt#=> $VERIF/simrt#" go.mod > "$SCRATCH/harness.mod"
  cp go.sum "$SCRATCH/harness.sum"
  if ! go build -modfile="$SCRATCH/harness.mod" -tags verif -o "$BIN" ./cmd/vsim >"$SCRATCH/build.log" 2>&1; then
    echo "NOTE: instrumented build failed, falling back to the plain build:"; head -5 "$SCRATCH/build.log"; MODE=plain
  elif [ "$ID" = "C12" ] || [ "$ID" = "C20" ]; then
    if go build -race -modfile="$SCRATCH/harness.mod" -tags verif -o "$SCRATCH/vsim-race" ./cmd/vsim >"$SCRATCH/build-race.log" 2>&1; then
      RACEBIN="$SCRATCH/vsim-race"
    else
      echo "BUILD-FAILED (race build of the instrumented harness):"; head -20 "$SCRATCH/build-race.log"; exit 2
    fi
  fi
else
  echo "NOTE: instrumentation not possible, falling back to the plain build (real goroutines):"; tail -3 "$SCRATCH/instr.log" "$SCRATCH/instr-build.log" 2>/dev/null | head -8; MODE=plain
fi
if [ "$MODE" = plain ]; then
  sed -e "s#=> /repo#=> $REPO#" -e "s#=> ./simrt#=> $VERIF/simrt#" go.mod > "$SCRATCH/plain.mod"
  cp go.sum "$SCRATCH/plain.sum"
  if ! go build -modfile="$SCRATCH/plain.mod" -tags verif -o "$BIN" ./cmd/vsim >"$SCRATCH/build.log" 2>&1; then
    echo "BUILD-FAILED (harness against /repo working tree with -tags verif):"; head -40 "$SCRATCH/build.log"
    exit 2
  fi
fi
grep -h "^instr: rewrites" "$SCRATCH/instr.log" 2>/dev/null
export TMPDIR="$SCRATCH"
"$BIN" check -prop "$ID" -tier "$TIER" -verif "${VERIF_OUT:-$VERIF}" -mode "$MODE" ${RACEBIN:+-racebin "$RACEBIN"} ${VSIM_ARGS:-}
exit $?
