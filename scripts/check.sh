#!/bin/bash
# check.sh <property> [quick|thorough]
# Rebuilds the harness against /repo's current working tree (hooks on: -tags verif),
# runs the seeded simulation for one property, writes evidence/<id>.json.
# exit 0 held / 1 VIOLATION / 2 harness or build trouble (never a VIOLATION).
set -u
ID="$1"; TIER="${2:-${VERIF_TIER:-quick}}"
cd "$(dirname "$0")/.." || exit 2
VERIF="$(pwd)"
export GOFLAGS=-mod=mod GOPROXY=off GOTOOLCHAIN=auto
unset GOSUMDB
SCRATCH="$(mktemp -d "${TMPDIR:-/tmp}/verif-$ID-XXXXXX")" || exit 2
trap 'rm -rf "$SCRATCH"' EXIT
if ! go build -tags verif -o "$SCRATCH/vsim" ./cmd/vsim >"$SCRATCH/build.log" 2>&1; then
  echo "BUILD-FAILED (harness against /repo working tree with -tags verif):"; head -40 "$SCRATCH/build.log"
  exit 2
fi
export TMPDIR="$SCRATCH"
"$SCRATCH/vsim" check -prop "$ID" -tier "$TIER" -verif "$VERIF" ${VSIM_ARGS:-}
exit $?
