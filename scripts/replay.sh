#!/bin/bash
# replay.sh <replay file>: re-executes a recorded (minimised) trace in a fresh
# process against /repo's current working tree. exit 1 = reproduced.
set -u
cd "$(dirname "$0")/.." || exit 2
export GOFLAGS=-mod=mod GOPROXY=off GOTOOLCHAIN=auto
unset GOSUMDB
SCRATCH="$(mktemp -d "${TMPDIR:-/tmp}/verif-replay-XXXXXX")" || exit 2
trap 'rm -rf "$SCRATCH"' EXIT
go build -tags verif -o "$SCRATCH/vsim" ./cmd/vsim || exit 2
GODEBUG=clobberfree=1 "$SCRATCH/vsim" replay "$1"
