#!/bin/bash
# replay.sh <replay file>: re-executes a recorded (minimised) trace in a fresh process against
# /repo's current working tree, built the same way the checks build it (instrumented when
# possible; the race build for a race finding). exit 1 = reproduced, 0 = not reproduced.
set -u
F="$(realpath "$1")"
cd "$(dirname "$0")/.." || exit 2
VERIF="$(pwd)"; REPO="${REPO_DIR:-/repo}"
export GOFLAGS=-mod=mod GOPROXY=off GOTOOLCHAIN=auto
unset GOSUMDB
SCRATCH="$(mktemp -d "${TMPDIR:-/tmp}/verif-replay-XXXXXX")" || exit 2
trap 'rm -rf "$SCRATCH"' EXIT
RACE=0; grep -q '"op": "race"' "$F" && RACE=1
. scripts/build.sh "$SCRATCH" $RACE || exit 2
if [ $RACE = 1 ]; then
  GORACE="halt_on_error=1 exitcode=66" GODEBUG=clobberfree=1 "$RACEBIN" replay "$F"; rc=$?
  [ $rc = 66 ] && { echo "REPRODUCED (data race reported)"; exit 1; }
  exit $rc
fi
GODEBUG=clobberfree=1 "$BIN" replay "$F"
rc=$?
# a by-seed trace of a run that kills its process reproduces by dying again
if [ $rc -ne 0 ] && [ $rc -ne 1 ]; then echo "REPRODUCED (the run kills its process, exit $rc)"; exit 1; fi
exit $rc
