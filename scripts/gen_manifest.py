#!/usr/bin/env python3
"""Regenerates MANIFEST.json from the table below (single source of truth)."""
import json, subprocess

CLAIMED = {
 # id: (level, technique, text, note, design_ref)
}
NA = {
}
exec(open('/verif/scripts/manifest_table.py').read())

props = [json.loads(l)['id'] for l in open('/verif/properties.jsonl')]
checks = []
for pid in props:
    if pid in CLAIMED:
        level, tech, text, note, ref = CLAIMED[pid]
        checks.append({
            "property_id": pid,
            "quick_cmd": f"scripts/check.sh {pid} quick",
            "thorough_cmd": f"scripts/check.sh {pid} thorough",
            "evidence_file": f"/verif/evidence/{pid}.json",
            "replay_cmd_template": "scripts/replay.sh {path}",
            "engine": "vsim",
            "level_claimed": {"category": level, "text": text, "design_ref": ref},
            "level_note": note,
            "technique": tech,
        })
na = [{"property_id": pid, "reason": NA[pid]} for pid in props if pid not in CLAIMED]
missing = [pid for pid in props if pid not in CLAIMED and pid not in NA]
assert not missing, missing
hooks = subprocess.run(['git','-C','/repo','log','--format=%H','--grep=^verif hooks'],capture_output=True,text=True).stdout.split()
m = {
 "version": 1,
 "setup_cmd": "scripts/setup.sh",
 "hooks": {
  "guard": "verif (Go build tag)",
  "enable": "go build -tags verif (the harness module replaces github.com/RoaringBitmap/roaring/v2 by /repo, or by an instrumented scratch copy of /repo's working tree for the scheduler engine)",
  "baseline_off_cmd": "cd /repo && GOFLAGS=-mod=mod GOPROXY=off go test -vet=off -count=1 -timeout 25m ./...",
  "source_commits": hooks,
  "add_only": True
 },
 "engines": [
  {"name": "vsim", "path": "/verif/cmd/vsim", "serves_properties": sorted(CLAIMED), "kind_free_text": "deterministic simulation: seeded world histories against a reference model (WORLD), simulated storage/streams with fault injection and mmap regions (DISK), seeded cooperative goroutine scheduler over an instrumented copy of the library (SCHED)"}
 ],
 "checks": checks,
 "not_applicable": na,
 "notes": "See DESIGN.md. Exit codes: 0 held, 1 VIOLATION (with replay file), 2 harness/build trouble (never a VIOLATION). known_findings.json lists genuine defects (known / fixed)."
}
json.dump(m, open('/verif/MANIFEST.json','w'), indent=1)
print("claimed", len(checks), "n/a", len(na))
