#!/bin/bash
# Runs the repository's own suite with the hook guard OFF (no -tags verif).
# Three tests fail on the untouched tree because their testdata is emptied in this sandbox; they are skipped
# so that the rest of their packages runs.
cd /repo && GOFLAGS=-mod=mod GOPROXY=off go test -vet=off -count=1 -timeout 25m -skip '^(TestBatchEqualExistenceAuthority|TestBSI64BatchEqualExistenceAuthority|TestLargeFile)$' ./... 2>&1 | grep -E "^(ok|FAIL|---|panic)" | head -40
