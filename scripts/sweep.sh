#!/bin/bash
# sweep.sh <tier> <seed...>: runs every claimed check at the given tier for each seed, one line per run.
# Used for background hunts (vp run); evidence goes to a scratch directory.
cd "$(dirname "$0")/.." || exit 2
TIER="$1"; shift
OUT=$(mktemp -d /tmp/sweep-XXXXXX); cp known_findings.json "$OUT/"
for seed in "$@"; do
  for id in $(python3 -c "import json;print(' '.join(c['property_id'] for c in json.load(open('MANIFEST.json'))['checks']))"); do
    s=$(date +%s); out=$(VERIF_SEED=$seed VERIF_OUT="$OUT" scripts/check.sh $id $TIER 2>&1); rc=$?; e=$(date +%s)
    echo "seed=$seed $id rc=$rc $((e-s))s $(echo "$out" | grep -E '^(done)' | cut -c1-160)"
    echo "$out" | grep -E -A3 '^(VIOLATION|KNOWN|HARNESS|BUILD|WORKER|NOT-CONF)' | cut -c1-400 | head -20
    if [ $rc -eq 1 ]; then mkdir -p /tmp/sweep-keep; cp "$OUT"/replays/$id-* /tmp/sweep-keep/ 2>/dev/null; fi
  done
done
rm -rf "$OUT"
