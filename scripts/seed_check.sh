#!/bin/bash
# seed_check.sh <seed id> [property] [tier]: applies seeded/<id>/patch.diff to /repo, runs the
# property's check, reverts /repo. Prints DETECTED / MISSED.
set -u
ID="$1"; cd "$(dirname "$0")/.." || exit 2
PROP="${2:-$(python3 -c "import json;print(json.load(open('seeded/$ID/meta.json'))['property'])")}"
TIER="${3:-quick}"
if ! git -C /repo diff --quiet; then echo "/repo has uncommitted changes"; exit 2; fi
git -C /repo apply "$(pwd)/seeded/$ID/patch.diff" || { echo "$ID: PATCH-DOES-NOT-APPLY"; exit 2; }
OUT=$(scripts/check.sh "$PROP" "$TIER" 2>&1); RC=$?
git -C /repo checkout -- . 
echo "$OUT" | grep -E "^(VIOLATION|KNOWN|done|HARNESS|BUILD|WORKER)" | cut -c1-300 | head -8
echo "$OUT" | grep -A2 "^VIOLATION" | grep "sig=" | head -3
if [ $RC -eq 1 ]; then echo "$ID on $PROP: DETECTED"; elif [ $RC -eq 0 ]; then echo "$ID on $PROP: MISSED"; else echo "$ID on $PROP: HARNESS-ERROR rc=$RC"; fi
