#!/bin/bash
# seed_check.sh <seed id> [property] [tier]: applies seeded/<id>/patch.diff to a scratch
# worktree of /repo (equivalent to applying it to /repo and undoing it, but leaves /repo
# alone), runs the property's check against that tree, removes the worktree.
# Evidence/replays of this run go to a scratch directory, not to /verif.
# Prints DETECTED / MISSED.
set -u
ID="$1"; cd "$(dirname "$0")/.." || exit 2
PROP="${2:-$(python3 -c "import json;m=json.load(open('seeded/$ID/meta.json'));print(m.get('check_property',m['property']))")}"
TIER="${3:-quick}"
WT=$(mktemp -d /tmp/seedrun-XXXXXX); OUT=$(mktemp -d /tmp/seedout-XXXXXX)
git -C /repo worktree add --detach "$WT" HEAD >/dev/null 2>&1 || exit 2
cleanup(){ git -C /repo worktree remove --force "$WT" >/dev/null 2>&1; rm -rf "$WT" "$OUT"; }
trap cleanup EXIT
git -C "$WT" apply "$(pwd)/seeded/$ID/patch.diff" || { echo "$ID: PATCH-DOES-NOT-APPLY"; exit 2; }
cp known_findings.json "$OUT/"
S=$(date +%s)
RES=$(REPO_DIR="$WT" VERIF_OUT="$OUT" scripts/check.sh "$PROP" "$TIER" 2>&1); RC=$?
E=$(date +%s)
echo "$RES" | grep -E "^(VIOLATION|KNOWN|done|HARNESS|BUILD|WORKER|NOTE)" | cut -c1-300 | head -6
echo "$RES" | grep -A2 "^VIOLATION" | grep "sig=" | head -3
if [ $RC -eq 1 ]; then echo "$ID on $PROP: DETECTED ($((E-S))s)"; elif [ $RC -eq 0 ]; then echo "$ID on $PROP: MISSED ($((E-S))s)"; else echo "$ID on $PROP: HARNESS-ERROR rc=$RC"; fi
