#!/bin/bash
# coverage.sh [property ...]   (default: every claimed property)
# Reach measurement, not a check: builds the instrumented harness with Go's coverage
# instrumentation for the library packages, runs the quick tier of each property with
# evidence redirected to a scratch directory, and writes
#   coverage/functions.txt   per-function statement coverage of the library under the harness
#   coverage/unreached.txt   library functions no run entered (the blind spots)
#   coverage/uncovered_blocks.txt  library statements no run executed (file: line ranges)
#                              (line numbers are those of the instrumented scratch copy: exact for files the
#                              instrumenter leaves alone, shifted in parallel.go, parallel64.go and the BSI files)
#   coverage/summary.txt     per-package totals
# Exit 0 always unless the build fails (2).
set -u
cd "$(dirname "$0")/.." || exit 2
VERIF="$(pwd)"
REPO="${REPO_DIR:-/repo}"
export GOFLAGS=-mod=mod GOPROXY=off GOTOOLCHAIN=auto
unset GOSUMDB
PROPS="${*:-$(python3 -c "import json;print(' '.join(p['property_id'] for p in json.load(open('MANIFEST.json'))['checks']))")}"
SCRATCH="$(mktemp -d "${TMPDIR:-/tmp}/verif-cov-XXXXXX")" || exit 2
trap 'rm -rf "$SCRATCH"' EXIT
go build -o "$SCRATCH/instr" ./instr || exit 2
"$SCRATCH/instr" -src "$REPO" -dst "$SCRATCH/repo" -simrt "$VERIF/simrt" >"$SCRATCH/instr.log" 2>&1 || { cat "$SCRATCH/instr.log"; exit 2; }
sed -e "s#=> /repo#=> $SCRATCH/repo#" -e "s#=> ./simrt#=> $VERIF/simrt#" go.mod > "$SCRATCH/harness.mod"
cp go.sum "$SCRATCH/harness.sum"
go build -cover -coverpkg=github.com/RoaringBitmap/roaring/v2/...,verif/cmd/vsim -modfile="$SCRATCH/harness.mod" -tags verif -o "$SCRATCH/vsim" ./cmd/vsim || exit 2
mkdir -p "$SCRATCH/out/evidence" "$SCRATCH/cov" coverage
cp known_findings.json MANIFEST.json properties.jsonl "$SCRATCH/out/" 2>/dev/null
export TMPDIR="$SCRATCH"
for id in $PROPS; do
  GOCOVERDIR="$SCRATCH/cov" "$SCRATCH/vsim" check -prop "$id" -tier quick -verif "$SCRATCH/out" -mode instrumented 2>&1 | tail -1
  # merge as we go: thousands of per-process files otherwise
  mkdir -p "$SCRATCH/merged.new"
  go tool covdata merge -i="$SCRATCH/cov$( [ -d "$SCRATCH/merged" ] && echo ",$SCRATCH/merged")" -o="$SCRATCH/merged.new" 2>/dev/null
  rm -rf "$SCRATCH/merged" "$SCRATCH/cov"; mv "$SCRATCH/merged.new" "$SCRATCH/merged"; mkdir -p "$SCRATCH/cov"
done
go tool covdata func -i="$SCRATCH/merged" 2>/dev/null | sed -e "s#github.com/RoaringBitmap/roaring/v2/##" | grep -v "verif_hooks.go\|zz_simrt_marker\|^verif/" > coverage/functions.txt
grep -E "[[:space:]]0\.0%$" coverage/functions.txt > coverage/unreached.txt
go tool covdata textfmt -i="$SCRATCH/merged" -o="$SCRATCH/profile.txt" 2>/dev/null
python3 - "$SCRATCH/profile.txt" > coverage/uncovered_blocks.txt <<'PY'
import sys,re,collections
# library statements no run executed, as file:firstline-lastline (adjacent blocks merged)
blocks=collections.defaultdict(list)
for l in open(sys.argv[1]):
    m=re.match(r'github.com/RoaringBitmap/roaring/v2/(\S+?):(\d+)\.\d+,(\d+)\.\d+ (\d+) (\d+)$',l.strip())
    if not m or 'verif_hooks' in m.group(1) or 'zz_simrt' in m.group(1): continue
    if int(m.group(5))==0: blocks[m.group(1)].append((int(m.group(2)),int(m.group(3))))
for f in sorted(blocks):
    out=[]
    for a,b in sorted(blocks[f]):
        if out and a<=out[-1][1]+1: out[-1]=(out[-1][0],max(b,out[-1][1]))
        else: out.append((a,b))
    print(f, ' '.join('%d-%d'%(a,b) if a!=b else str(a) for a,b in out))
PY
go tool covdata percent -i="$SCRATCH/merged" 2>/dev/null | sed -e "s#github.com/RoaringBitmap/roaring/v2#roaring#" > coverage/summary.txt
cat coverage/summary.txt
echo "functions: $(grep -vc '^total' coverage/functions.txt)  unreached: $(wc -l < coverage/unreached.txt)"
exit 0
