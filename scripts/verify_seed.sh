#!/bin/bash
# verify_seed.sh <dir with patch.diff demo_test.go meta.json> : confirms in a scratch
# worktree that (1) demo passes without the change, (2) fails with it, (3) the
# existing suite passes with it. Prints VERIFIED or REJECTED:<why>.
set -u
D="$(realpath "$1")"
export GOFLAGS=-mod=mod GOPROXY=off
PKG=$(python3 -c "import json;print(json.load(open('$D/meta.json')).get('package_dir_for_demo','.'))")
WT=$(mktemp -d /tmp/seedverify-XXXXXX)
git -C /repo worktree add --detach "$WT" HEAD >/dev/null 2>&1 || { echo "REJECTED: worktree"; exit 2; }
cleanup(){ git -C /repo worktree remove --force "$WT" >/dev/null 2>&1; rm -rf "$WT"; }
trap cleanup EXIT
cd "$WT"
cp "$D/demo_test.go" "$PKG/zz_seeded_demo_test.go"
if ! go test -vet=off -count=1 -run 'TestSeededDemo' "./$PKG" >"$WT/.demo0.log" 2>&1; then echo "REJECTED: demo fails on the untouched tree"; tail -5 "$WT/.demo0.log"; exit 1; fi
if ! git apply "$D/patch.diff" 2>"$WT/.apply.log"; then echo "REJECTED: patch does not apply"; cat "$WT/.apply.log"; exit 1; fi
if ! go build ./... >"$WT/.build.log" 2>&1; then echo "REJECTED: does not build"; exit 1; fi
if go test -vet=off -count=1 -run 'TestSeededDemo' "./$PKG" >"$WT/.demo1.log" 2>&1; then echo "REJECTED: demo passes with the change"; exit 1; fi
rm "$PKG/zz_seeded_demo_test.go"
if ! go test -vet=off -count=1 -timeout 25m -skip '^(TestBatchEqualExistenceAuthority|TestBSI64BatchEqualExistenceAuthority|TestLargeFile)$' ./... >"$WT/.suite.log" 2>&1; then echo "REJECTED: suite fails with the change"; grep -E "^(--- FAIL|FAIL|panic)" "$WT/.suite.log" | head; exit 1; fi
echo "VERIFIED $(basename $D): demo passes without / fails with the change; suite (minus 3 tests that fail on the untouched tree) passes with it"
