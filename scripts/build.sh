#!/bin/bash
# build.sh <scratch dir> <want-race: 0|1>  (sourced by check.sh / replay.sh)
# Builds the harness from the tree under check ($REPO): instrumented if possible, else plain.
# Sets BIN, RACEBIN, MODE. Returns non-zero (after printing BUILD-FAILED) on harness build trouble.
SCRATCH="$1"; WANT_RACE="${2:-0}"
BIN="$SCRATCH/vsim"; RACEBIN=""; MODE=instrumented
if go build -o "$SCRATCH/instr" ./instr >"$SCRATCH/instr-build.log" 2>&1 \
   && "$SCRATCH/instr" -src "$REPO" -dst "$SCRATCH/repo" -simrt "$VERIF/simrt" >"$SCRATCH/instr.log" 2>&1; then
  sed -e "s#=> /repo#=> $SCRATCH/repo#" -e "s#=> ./simrt#=> $VERIF/simrt#" go.mod > "$SCRATCH/harness.mod"
  cp go.sum "$SCRATCH/harness.sum"
  if ! go build -modfile="$SCRATCH/harness.mod" -tags verif -o "$BIN" ./cmd/vsim >"$SCRATCH/build.log" 2>&1; then
    echo "NOTE: instrumented build failed, falling back to the plain build:"; head -5 "$SCRATCH/build.log"; MODE=plain
  elif [ "$WANT_RACE" = 1 ]; then
    if go build -race -modfile="$SCRATCH/harness.mod" -tags verif -o "$SCRATCH/vsim-race" ./cmd/vsim >"$SCRATCH/build-race.log" 2>&1; then
      RACEBIN="$SCRATCH/vsim-race"
    else
      echo "BUILD-FAILED (race build of the instrumented harness):"; head -20 "$SCRATCH/build-race.log"; return 2
    fi
  fi
else
  echo "NOTE: instrumentation not possible, falling back to the plain build (real goroutines):"; tail -3 "$SCRATCH/instr.log" "$SCRATCH/instr-build.log" 2>/dev/null | head -8; MODE=plain
fi
if [ "$MODE" = plain ]; then
  sed -e "s#=> /repo#=> $REPO#" -e "s#=> ./simrt#=> $VERIF/simrt#" go.mod > "$SCRATCH/plain.mod"
  cp go.sum "$SCRATCH/plain.sum"
  if ! go build -modfile="$SCRATCH/plain.mod" -tags verif -o "$BIN" ./cmd/vsim >"$SCRATCH/build.log" 2>&1; then
    echo "BUILD-FAILED (harness against the working tree of $REPO with -tags verif):"; head -40 "$SCRATCH/build.log"
    return 2
  fi
fi
grep -h "^instr: rewrites" "$SCRATCH/instr.log" 2>/dev/null
return 0
