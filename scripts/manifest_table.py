WORLD_NOTE = "Trusted: the naive reference model (bit arrays), observation through the public API, the Go toolchain. Sampling of histories from VERIF_SEED, not enumeration; a clean batch is evidence, not proof."
CLAIMED = {
 "C02": ("exploration", "deterministic simulation: seeded mutation histories vs reference model, invariants after every step",
         "Seeded histories of all mutating calls (state-aware, boundary-biased arguments) on a population of bitmaps in every reachable storage mix; after every step contents, Checked* booleans and panics are compared with a naive set model. Exploration is the right level: the history space is unbounded.",
         WORLD_NOTE, "DESIGN.md §3 C02"),
}
NOTYET = "not claimed yet: check under construction in this session (see DESIGN.md §9 build order)"
NA = {
 "C03": "pure function of (bitmap, argument): no schedule, fault, clock or history in the statement — not a simulation target (DESIGN.md §7)",
 "C06": "pure function bytes<->set in both directions; another implementation's stream is an input distribution, not a second party (DESIGN.md §7)",
 "C15": "pure function of (bitmap, target): nothing to schedule, fault or sequence (DESIGN.md §7)",
}
for _p in ["C01","C04","C05","C07","C08","C09","C10","C11","C12","C13","C14","C16","C17","C18","C19","C20"]:
    if _p not in CLAIMED: NA[_p] = NOTYET
