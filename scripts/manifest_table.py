WORLD_NOTE = "Trusted: the naive reference model (bit arrays), observation through the public API, the Go toolchain. Sampling of histories from VERIF_SEED, not enumeration; a clean batch is evidence, not proof."
CLAIMED = {
 "C02": ("exploration", "deterministic simulation: seeded mutation histories vs reference model, invariants after every step",
         "Seeded histories of all mutating calls (state-aware, boundary-biased arguments) on a population of bitmaps in every reachable storage mix; after every step contents, Checked* booleans and panics are compared with a naive set model. Exploration is the right level: the history space is unbounded.",
         WORLD_NOTE, "DESIGN.md §3 C02"),
}
def W(tech, text, ref, level="exploration", note=None):
    return (level, tech, text, note or WORLD_NOTE, ref)
CLAIMED.update({
 "C01": W("deterministic simulation: world histories produce operand configurations (COW-shared, zero-copy, decoded, run-optimised, self-aliased); set algebra vs reference model",
          "Weak fit for the family (no fault or schedule dimension): the simulated world supplies the configuration half of the quantifier; every And/Or/Xor/AndNot (static, in-place, self) and cardinality shortcut executed in a history is compared with the model; a pairing scenario forces kind x kind x boundary cells and evidence counts them.", "DESIGN.md §3 C01"),
 "C04": W("deterministic simulation: seeded call interleavings on cursor state machines vs model cursor",
          "Cursors (forward, reverse, many, unset over windows) are world objects driven by seeded interleavings of HasNext/Next/PeekNext/AdvanceIfNeeded/NextMany with state-aware arguments; Iterate/Values/Backward/Unset/Ranges with seeded early stop; all compared with the model's sorted element / complement list.", "DESIGN.md §3 C04"),
 "C05": W("deterministic simulation with fault injection: writer failure at enumerated offsets x 3 modes, reader chunking, trailing data, receiver reuse, 5 entry points",
          "Streams of history-produced bitmaps are written through 4 entry points and read back through 5 (io.Reader delivered in seeded chunkings with a trailing sentinel, zero-copy buffers in guard-paged read-only mappings, fresh or reused receivers); byte accounting is exact; every writer failure offset is enumerated for streams <= 4 KiB (boundaries+sample above) in three failure modes and must surface as an error; the decoded bitmap joins the world.", "DESIGN.md §3 C05", "fault_enumeration"),
 "C07": W("deterministic simulation: create/derive/mutate histories x COW switches; behavioural independence of every live bitmap after every step + structural sharing scan confirmed by write probes",
          "After every step every bitmap that is not the declared output must still equal its model; argument slices must be unchanged; a hook-based scan finds chunks reachable from two owners without the flag and confirms behaviourally by writing through one and reading the other.", "DESIGN.md §3 C07"),
 "C08": W("deterministic simulation with fault injection: caller buffers are PROT_READ mmap regions with guard pages; detach then PROT_NONE at seeded history points",
          "Zero-copy bitmaps (FromBuffer, FromUnsafeBytes, FrozenView, no-copy FromDense) live over read-only mappings while the full mutation/algebra/aggregate mix runs on them and on bitmaps derived from them; a stray write faults with the address and the operation; at a seeded point dependants are detached or dropped and the buffer becomes PROT_NONE, so any residual dependency faults on first touch; the collector is fired as a step.", "DESIGN.md §3 C08"),
 "C09": W("deterministic simulation: Validate() plus independent invariant walk after every step of every history, round trips included",
          "Closure of well-formedness over reachable states: after each step the outputs must pass Validate() and an independent walk over the hook's chunk view (first-cause attribution with rebuild).", "DESIGN.md §3 C09"),
 "C10": W("deterministic simulation with fault injection on stored bytes: every truncation point, bit/byte/sector faults, structured illegal encodings via an independent codec, guard pages, six entry points",
          "Valid streams come from world states; every proper prefix (<= 8 KiB, boundaries+sample above) must be rejected by each portable entry point; corrupted streams must yield error or success without panic/fault; on success + Validate()==nil a consistency battery (queries, iterators, algebra, re-serialisation) must hold; MustReadFrom must mirror ReadFrom.", "DESIGN.md §3 C10", "fault_enumeration"),
 "C11": W("deterministic simulation: aggregates as world transitions over list shapes and worker counts vs model fold (seeded scheduler runs in C12's engine)",
          "FastOr/FastAnd/HeapOr/HeapXor/ParOr/ParAnd/ParHeapOr/AndAny over lists with empties, duplicates, singletons, keys at the top of the key space, worker counts 0..9; result vs fold of the model and Validate.", "DESIGN.md §3 C11"),
 "C13": W("deterministic simulation with fault enumeration: FreezeTo destination sizes enumerated, three writers compared, independent layout parse, view over read-only mapping continues in the world",
          "Freeze == FreezeTo == WriteFrozenTo byte-wise with exact sizes; every too-small destination (all sizes when <= 1 KiB) must fail without touching the buffer; an independent parser of the CRoaring layout must read back the model; the frozen view validates, equals the model and keeps living in the world under copying writes and collections.", "DESIGN.md §3 C13", "fault_enumeration"),
 "C14": W("deterministic simulation: size bound as an invariant over histories, before and after RunOptimize",
          "After every step the serialized size of each output is compared with the README bound and BoundSerializedSizeInBytes at x=max+1, as is and after RunOptimize on a clone; threshold scenarios steer chunks to 4095/4096/4097 values.", "DESIGN.md §3 C14"),
 "C16": W("deterministic simulation: no-copy dense words in a PROT_READ region under later mutation; offset/flip/dense transforms as world transitions vs model",
          "AddOffset64 for offsets across 0 and 2^32, static Flip, ToDense/WriteDenseTo/FromDense/FromBitSet with both copy modes and partial last chunks are compared with the model; no-copy imports keep their words in a read-only mapping while the bitmap is mutated.", "DESIGN.md §3 C16"),
 "C17": W("deterministic simulation: 64-bit histories (buckets appear, empty out, disappear; ranges crossing 2^32) vs uint64 reference model",
          "The whole 64-bit API (algebra static/in-place/self, point/bulk/range mutation with Checked*, rank/select/extrema, iterators with peek/advance, static Flip, FastOr/FastAnd/ParOr) runs in seeded histories over buckets {0,1,0x7FFFFFFF,0x80000000,0xFFFFFFFF,random}; contents and query results vs a map[uint32]->set model after every step; recovered panics are violations.", "DESIGN.md §3 C17"),
 "C18": W("deterministic simulation with fault injection: 64-bit streams truncated at every offset, bucket-count/key/inner-cookie corruption, 4 entry points, chunked readers, address-space cap",
          "Byte accounting and round trips through 4x4 entry points (fresh/reused receivers, read-only guard-paged buffers), Validate on library-made bitmaps and round trips; every proper prefix (<= 6000 bytes) and count/key/cookie corruptions must give error-or-bitmap, never panic, fatal error or hang (workers run under an address-space limit and a watchdog; a run that kills its process is reproduced from its seed and reported).", "DESIGN.md §3 C18", "fault_enumeration"),
})
NOTYET = "not claimed yet: check under construction in this session (see DESIGN.md §9 build order)"
NA = {
 "C03": "pure function of (bitmap, argument): no schedule, fault, clock or history in the statement — not a simulation target (DESIGN.md §7)",
 "C06": "pure function bytes<->set in both directions; another implementation's stream is an input distribution, not a second party (DESIGN.md §7)",
 "C15": "pure function of (bitmap, target): nothing to schedule, fault or sequence (DESIGN.md §7)",
}
for _p in ["C01","C04","C05","C07","C08","C09","C10","C11","C12","C13","C14","C16","C17","C18","C19","C20"]:
    if _p not in CLAIMED: NA[_p] = NOTYET
