#!/bin/bash
# Determinism self-test: the same VERIF_SEED must give byte-identical event logs
# in fresh processes at GOMAXPROCS 1, 4 and 16, in the plain, the instrumented and the
# race-instrumented build. Prints DETERMINISM-OK or the first differing run.
set -u
cd "$(dirname "$0")/.." || exit 2
VERIF="$(pwd)"
export GOFLAGS=-mod=mod GOPROXY=off GOTOOLCHAIN=auto
unset GOSUMDB
N="${1:-60}"
S="$(mktemp -d "${TMPDIR:-/tmp}/verif-det-XXXXXX")"; trap 'rm -rf "$S"' EXIT
go build -o "$S/instr" ./instr && "$S/instr" -src /repo -dst "$S/repo" -simrt "$VERIF/simrt" >/dev/null || exit 2
sed -e "s#=> /repo#=> $S/repo#" -e "s#=> ./simrt#=> $VERIF/simrt#" go.mod > "$S/h.mod"; cp go.sum "$S/h.sum"
go build -tags verif -o "$S/plain" ./cmd/vsim || exit 2
go build -modfile="$S/h.mod" -tags verif -o "$S/sched" ./cmd/vsim || exit 2
go build -race -modfile="$S/h.mod" -tags verif -o "$S/race" ./cmd/vsim || exit 2
bad=0; total=0
for prop in C02 C05 C07 C08 C10 C12 C13 C17 C18 C19 C20; do
  for bin in plain sched race; do
    n=$N; [ $bin = race ] && n=$((N/4))
    [ $bin = race ] && [ $prop != C12 ] && [ $prop != C20 ] && continue
    for seed in 1 20260925; do
      ref=""
      for gmp in 1 4 16; do
        out="$S/$prop-$bin-$seed-$gmp.txt"
        GOMAXPROCS=$gmp GODEBUG=clobberfree=1 "$S/$bin" hashes -prop $prop -seed $seed -count $n > "$out" 2>"$out.err" || { echo "RUN-FAILED $prop $bin seed=$seed GOMAXPROCS=$gmp"; tail -3 "$out.err"; bad=1; }
        total=$((total+n))
        if [ -z "$ref" ]; then ref="$out"; elif ! cmp -s "$ref" "$out"; then echo "NONDETERMINISTIC $prop build=$bin seed=$seed GOMAXPROCS=$gmp:"; diff "$ref" "$out" | head -4; bad=1; fi
      done
    done
  done
done
# stub fidelity: the instrumented build (scheduler owns every goroutine) and the plain build
# (real goroutines) must generate and observe exactly the same histories on a correct tree
for prop in C02 C07 C11 C12 C17 C19 C20; do
  awk '{print $1,$2,$3}' "$S/$prop-plain-1-16.txt" > "$S/fa.txt"; awk '{print $1,$2,$3}' "$S/$prop-sched-1-16.txt" > "$S/fb.txt"
  if ! cmp -s "$S/fa.txt" "$S/fb.txt"; then echo "STUB-FIDELITY-MISMATCH $prop (plain vs instrumented):"; diff "$S/fa.txt" "$S/fb.txt" | head -4; bad=1; fi
done
[ $bad = 0 ] && echo "STUB-FIDELITY-OK: plain and instrumented builds produce identical histories and verdicts (7 properties)"
[ $bad = 0 ] && echo "DETERMINISM-OK: $total runs hashed, identical across GOMAXPROCS 1/4/16 and repeated processes (plain, instrumented, race builds)"
exit $bad
