// vsim is the runner: check | worker | replay | minimise.
//
//	vsim check -prop C02 -tier quick      orchestrates worker processes, confirms,
//	                                      minimises, writes evidence, prints verdict
//	vsim worker ...                       runs a slice of run indices (internal)
//	vsim replay <file>                    replays a recorded trace in this process
package main

import (
	"encoding/json"
	"flag"
	"fmt"
	"os"
	"os/exec"
	"path/filepath"
	"runtime"
	"runtime/debug"
	"sort"
	"strconv"
	"strings"
	"sync"
	"sync/atomic"
	"syscall"
	"time"

	simrt "verifsimrt"

	"verif/world"
)

const defaultSeed = 20260925

type workerOut struct {
	Runs       int                      `json:"runs"`
	Steps      int                      `json:"steps"`
	Effective  int                      `json:"effective"`
	NonTrivial int                      `json:"nontrivial"`
	Ops        map[string]int           `json:"ops"`
	Probes     map[string]int           `json:"probes"`
	Faults     map[string]int           `json:"faults"`
	Pairings   map[string]int           `json:"pairings"`
	Foreign    int                      `json:"foreign"`
	ForeignSig map[string]int           `json:"foreign_sigs"`
	Unconf     int                      `json:"struct_unconfirmed"`
	States     []uint64                 `json:"states"`
	Inter      []uint64                 `json:"interleavings"`
	DiskTuples map[string]int           `json:"disk_tuples"`
	GCs        int                      `json:"gcs"`
	Decisions  int                      `json:"decisions"`
	SchedRuns  int                      `json:"sched_runs"`
	DetChecked int                      `json:"determinism_rechecked"`
	DetBad     []string                 `json:"determinism_mismatch,omitempty"`
	Sigs       map[string]*world.Trace  `json:"sigs"` // first trace per failure signature
	SigCount   map[string]int           `json:"sig_count"`
	Samples    []*world.Trace           `json:"samples"`
}

func addMap(dst, src map[string]int) {
	for k, v := range src {
		dst[k] += v
	}
}

func main() {
	if len(os.Args) < 2 {
		fmt.Fprintln(os.Stderr, "usage: vsim check|worker|replay ...")
		os.Exit(2)
	}
	switch os.Args[1] {
	case "check":
		os.Exit(cmdCheck(os.Args[2:]))
	case "worker":
		os.Exit(cmdWorker(os.Args[2:]))
	case "replay":
		os.Exit(cmdReplay(os.Args[2:]))
	case "hashes":
		os.Exit(cmdHashes(os.Args[2:]))
	default:
		fmt.Fprintln(os.Stderr, "unknown command", os.Args[1])
		os.Exit(2)
	}
}

func traceHash(tr *world.Trace) string {
	b, _ := json.Marshal(struct {
		S []world.Step
		F []world.Failure
	}{tr.Steps, tr.Fails})
	return fmt.Sprintf("%016x", world.HashStr(string(b)))
}

// ------------------------------------------------------------------ worker

func cmdWorker(args []string) int {
	fs := flag.NewFlagSet("worker", flag.ExitOnError)
	prop := fs.String("prop", "", "property id")
	profile := fs.String("profile", "", "op profile (default: property)")
	seed := fs.Uint64("seed", defaultSeed, "master seed")
	from := fs.Int("from", 0, "first run index")
	stride := fs.Int("stride", 1, "index stride")
	count := fs.Int("count", 1, "number of runs")
	out := fs.String("out", "", "result file")
	intent := fs.String("intent", "", "intent log")
	deadline := fs.Int64("deadline", 0, "unix seconds after which no new run starts")
	fs.Parse(args)

	debug.SetGCPercent(-1)
	debug.SetMemoryLimit(6 << 30)
	limitAddressSpace()
	simrt.SetStuckHandler(func() { os.Exit(4) })
	var ilog *os.File
	if *intent != "" {
		ilog, _ = os.OpenFile(*intent, os.O_CREATE|os.O_WRONLY|os.O_TRUNC, 0o644)
	}
	res := &workerOut{Ops: map[string]int{}, Probes: map[string]int{}, Faults: map[string]int{}, Pairings: map[string]int{},
		ForeignSig: map[string]int{}, Sigs: map[string]*world.Trace{}, SigCount: map[string]int{}, DiskTuples: map[string]int{}}
	states := map[uint64]struct{}{}
	inter := map[uint64]struct{}{}
	var beat int64 // unix time the current run started; 0 = between runs
	go func() { // watchdog: a single run must finish within runTimeout
		for {
			time.Sleep(2 * time.Second)
			b := atomic.LoadInt64(&beat)
			if b != 0 && time.Now().Unix()-b > runTimeout {
				fmt.Fprintf(os.Stderr, "HANG: run exceeded %d s\n", runTimeout)
				buf := make([]byte, 4<<20)
				os.Stderr.Write(buf[:runtime.Stack(buf, true)])
				if ilog != nil {
					fmt.Fprintf(ilog, "HANG\n")
				}
				os.Exit(3)
			}
		}
	}()
	flush := func() {
		res.States, res.Inter = res.States[:0], res.Inter[:0]
		for h := range states {
			res.States = append(res.States, h)
		}
		for h := range inter {
			res.Inter = append(res.Inter, h)
		}
		b, _ := json.Marshal(res)
		if *out != "" {
			os.WriteFile(*out+".tmp", b, 0o644)
			os.Rename(*out+".tmp", *out)
		}
	}
	for k := 0; k < *count; k++ {
		if *deadline > 0 && time.Now().Unix() > *deadline {
			break
		}
		idx := *from + k**stride
		s := world.Mix(*seed, world.HashStr(*prop), uint64(idx))
		if k%32 == 0 && k > 0 {
			flush()
		}
		if ilog != nil {
			fmt.Fprintf(ilog, "BEGIN %d %d\n", idx, s)
		}
		atomic.StoreInt64(&beat, time.Now().Unix())
		tr, st := world.RunSeed(*prop, *profile, s, idx)
		atomic.StoreInt64(&beat, 0)
		res.Runs++
		res.Steps += st.Steps
		res.Effective += st.Effective
		if st.Effective >= 3 {
			res.NonTrivial++
		}
		addMap(res.Ops, st.Ops)
		addMap(res.Probes, st.Probes)
		addMap(res.Faults, st.Faults)
		addMap(res.Pairings, st.Pairings)
		addMap(res.ForeignSig, st.ForeignSigs)
		addMap(res.DiskTuples, st.DiskTuples)
		res.Foreign += st.Foreign
		res.Unconf += st.StructUnconf
		res.GCs += st.GCs
		res.Decisions += st.Decisions
		res.SchedRuns += st.SchedRuns
		for h := range st.States {
			states[h] = struct{}{}
		}
		for h := range st.Interleavings {
			inter[h] = struct{}{}
		}
		for _, f := range tr.Fails {
			sig := f.Sig()
			res.SigCount[sig]++
			if res.Sigs[sig] == nil {
				res.Sigs[sig] = tr
			}
		}
		if len(res.Samples) < 2 && st.Effective >= 3 && len(tr.Steps) <= 40 {
			res.Samples = append(res.Samples, tr)
		}
		// built-in determinism check on a sample of runs: same seed, same trace
		if k%16 == 0 {
			tr2, _ := world.RunSeed(*prop, *profile, s, idx)
			res.DetChecked++
			if traceHash(tr) != traceHash(tr2) {
				res.DetBad = append(res.DetBad, fmt.Sprintf("index %d seed %d", idx, s))
			}
		}
		runtime.GC()
	}
	flush()
	if ilog != nil {
		fmt.Fprintf(ilog, "END\n")
	}
	return 0
}

const runTimeout = 120

// limitAddressSpace caps virtual memory so that a table sized from an
// attacker's count fails at once instead of taking the sandbox down
// (not possible in race builds: the detector maps terabytes of shadow memory).
func limitAddressSpace() {
	if raceEnabled {
		return
	}
	lim := syscall.Rlimit{Cur: 24 << 30, Max: 24 << 30}
	syscall.Setrlimit(syscall.RLIMIT_AS, &lim)
}

// ------------------------------------------------------------------ hashes (determinism self-test)

// cmdHashes prints one line per run index with the hash of its full event log
// (steps generated, failures, scheduler choices through the step records).
func cmdHashes(args []string) int {
	fs := flag.NewFlagSet("hashes", flag.ExitOnError)
	prop := fs.String("prop", "", "property id")
	seed := fs.Uint64("seed", defaultSeed, "master seed")
	from := fs.Int("from", 0, "first run index")
	count := fs.Int("count", 50, "number of runs")
	fs.Parse(args)
	debug.SetGCPercent(-1)
	debug.SetMemoryLimit(6 << 30)
	simrt.SetStuckHandler(func() { os.Exit(4) })
	for k := 0; k < *count; k++ {
		idx := *from + k
		s := world.Mix(*seed, world.HashStr(*prop), uint64(idx))
		tr, st := world.RunSeed(*prop, "", s, idx)
		fmt.Printf("%d %s steps=%d decisions=%d\n", idx, traceHash(tr), len(tr.Steps), st.Decisions)
		runtime.GC()
	}
	return 0
}

// ------------------------------------------------------------------ replay

func cmdReplay(args []string) int {
	fs := flag.NewFlagSet("replay", flag.ExitOnError)
	minimise := fs.String("minimise", "", "write a minimised trace here (for the signature given by -sig)")
	sig := fs.String("sig", "", "failure signature to look for (default: first recorded)")
	quiet := fs.Bool("q", false, "quiet")
	fs.Parse(args)
	if fs.NArg() < 1 {
		fmt.Fprintln(os.Stderr, "usage: vsim replay [-minimise out -sig s] <file>")
		return 2
	}
	b, err := os.ReadFile(fs.Arg(0))
	if err != nil {
		fmt.Fprintln(os.Stderr, err)
		return 2
	}
	var tr world.Trace
	if err := json.Unmarshal(b, &tr); err != nil {
		fmt.Fprintln(os.Stderr, err)
		return 2
	}
	debug.SetGCPercent(-1)
	debug.SetMemoryLimit(6 << 30)
	want := *sig
	if want == "" && len(tr.Fails) > 0 {
		want = tr.Fails[0].Sig()
	}
	if *minimise != "" {
		m := world.Minimise(&tr, want, 400)
		mb, _ := json.MarshalIndent(m, "", " ")
		if err := os.WriteFile(*minimise, mb, 0o644); err != nil {
			fmt.Fprintln(os.Stderr, err)
			return 2
		}
		if len(m.Fails) == 0 {
			return 3
		}
		return 1
	}
	limitAddressSpace()
	var fails []world.Failure
	if tr.Note == "by-seed" {
		// a run that killed its process: regenerate it from its seed
		t2, _ := world.RunSeed(tr.Prop, tr.Profile, tr.Seed, tr.Index)
		fails = t2.Fails
	} else {
		fails, _ = world.Replay(&tr)
	}
	hit := false
	for _, f := range fails {
		if !*quiet {
			fmt.Printf("FAILURE step=%d sig=%s\n  %s\n", f.Step, f.Sig(), f.Detail)
		}
		if want == "" || f.Sig() == want {
			hit = true
		}
	}
	if hit {
		fmt.Printf("REPRODUCED property=%s sig=%s\n", tr.Prop, want)
		return 1
	}
	fmt.Println("NOT-REPRODUCED")
	return 0
}

// ------------------------------------------------------------------ check

type finding struct {
	Property string `json:"property"`
	Status   string `json:"status"` // known | fixed
	Sig      string `json:"sig"`    // exact signature, or prefix ending in '*'
	What     string `json:"what"`
	Commit   string `json:"commit,omitempty"`
}

func loadFindings(dir string) []finding {
	b, err := os.ReadFile(filepath.Join(dir, "known_findings.json"))
	if err != nil {
		return nil
	}
	var f struct {
		Findings []finding `json:"findings"`
	}
	if json.Unmarshal(b, &f) != nil {
		fmt.Fprintln(os.Stderr, "known_findings.json does not parse")
		os.Exit(2)
	}
	return f.Findings
}

func matchFinding(fs []finding, prop, sig string) *finding {
	for i := range fs {
		f := &fs[i]
		if f.Status != "known" || f.Property != prop {
			continue
		}
		if f.Sig == sig || (strings.HasSuffix(f.Sig, "*") && strings.HasPrefix(sig, strings.TrimSuffix(f.Sig, "*"))) {
			return f
		}
	}
	return nil
}

type crash struct {
	idx  int
	seed uint64
	kind string // crash | hang | race
	log  string
	bin  string
	env  []string
}

type wres struct {
	outs    []*workerOut
	err     error
	crashes []crash
}

type tierCfg struct {
	runs    int
	wallCap time.Duration
}

func budget(prop, tier string) tierCfg {
	q := map[string]int{"C01": 6000, "C02": 6000, "C04": 6000, "C05": 20000, "C07": 5000, "C08": 5000, "C09": 6000, "C10": 20000,
		"C11": 5000, "C12": 3000, "C13": 15000, "C14": 5000, "C16": 5000, "C17": 5000, "C18": 15000, "C19": 5000, "C20": 2200}
	n := q[prop]
	if n == 0 {
		n = 3000
	}
	if v := os.Getenv("VERIF_RUNS"); v != "" {
		if x, err := strconv.Atoi(v); err == nil {
			return tierCfg{x, 4 * time.Hour}
		}
	}
	if tier == "thorough" {
		return tierCfg{n * 12, 40 * time.Minute}
	}
	return tierCfg{n, 150 * time.Second}
}

func cmdCheck(args []string) int {
	fs := flag.NewFlagSet("check", flag.ExitOnError)
	prop := fs.String("prop", "", "property id")
	tier := fs.String("tier", "", "quick|thorough (default $VERIF_TIER or quick)")
	profile := fs.String("profile", "", "op profile override")
	level := fs.String("level", "exploration", "evidence level")
	verif := fs.String("verif", "/verif", "verif directory")
	workers := fs.Int("workers", runtime.NumCPU(), "worker processes")
	mode := fs.String("mode", "plain", "instrumented | plain (how the harness was built)")
	racebin := fs.String("racebin", "", "race-detector build of the instrumented harness (second pass)")
	fs.Parse(args)
	if *tier == "" {
		*tier = os.Getenv("VERIF_TIER")
	}
	if *tier != "thorough" {
		*tier = "quick"
	}
	switch *prop {
	case "C05", "C10", "C13", "C18":
		*level = "fault_enumeration" // fault positions are enumerated per stream (see DESIGN.md §3)
	}
	seed := uint64(defaultSeed)
	if v := os.Getenv("VERIF_SEED"); v != "" {
		if x, err := strconv.ParseUint(v, 10, 64); err == nil {
			seed = x
		} else if y, err := strconv.ParseInt(v, 10, 64); err == nil {
			seed = uint64(y)
		}
	}
	start := time.Now()
	bud := budget(*prop, *tier)
	self, _ := os.Executable()
	scratch, err := os.MkdirTemp("", "vsim-"+*prop+"-")
	if err != nil {
		fmt.Fprintln(os.Stderr, err)
		return 2
	}
	defer os.RemoveAll(scratch)
	fmt.Printf("vsim check property=%s tier=%s seed=%d runs=%d workers=%d build=%s race-pass=%v\n", *prop, *tier, seed, bud.runs, *workers, *mode, *racebin != "")

	deadline := start.Add(bud.wallCap).Unix()
	launch := func(bin string, base, runs int, extraEnv []string) []wres {
		nw := *workers
		if nw > runs {
			nw = runs
		}
		if nw < 1 {
			nw = 1
		}
		per := (runs + nw - 1) / nw
		results := make([]wres, nw)
		var wg sync.WaitGroup
		for i := 0; i < nw; i++ {
			wg.Add(1)
			go func(i int) {
				defer wg.Done()
				from, remaining := base+i, per
				for attempt := 0; attempt < 8 && remaining > 0; attempt++ {
					tagf := fmt.Sprintf("w%d-%d-%d", base, i, attempt)
					outf := filepath.Join(scratch, tagf+".json")
					intent := filepath.Join(scratch, tagf+".intent")
					logf := filepath.Join(scratch, tagf+".log")
					cmd := exec.Command(bin, "worker", "-prop", *prop, "-profile", *profile, "-seed", fmt.Sprint(seed),
						"-from", fmt.Sprint(from), "-stride", fmt.Sprint(nw), "-count", fmt.Sprint(remaining), "-out", outf, "-intent", intent,
						"-deadline", fmt.Sprint(deadline))
					cmd.Env = append(append(os.Environ(), "GODEBUG=clobberfree=1", "GOTRACEBACK=single"), extraEnv...)
					lf, _ := os.Create(logf)
					cmd.Stdout, cmd.Stderr = lf, lf
					err := cmd.Run()
					lf.Close()
					if b, rerr := os.ReadFile(outf); rerr == nil {
						var o workerOut
						if json.Unmarshal(b, &o) == nil {
							results[i].outs = append(results[i].outs, &o)
						}
					} else if err == nil {
						results[i].err = rerr
						return
					}
					if err == nil {
						return
					}
					code := -1
					if ee, ok := err.(*exec.ExitError); ok {
						code = ee.ExitCode()
					}
					// the worker died inside a run: find which one, remember it, carry on after it
					ib, _ := os.ReadFile(intent)
					lines := strings.Split(strings.TrimSpace(string(ib)), "\n")
					kind := "crash"
					if code == 66 {
						kind = "race"
					}
					if code == 4 {
						results[i].err = fmt.Errorf("scheduler lost a goroutine (SIMRT-STUCK)")
					}
					var idx int
					var sd uint64
					found := false
					for j := len(lines) - 1; j >= 0; j-- {
						if lines[j] == "HANG" {
							kind = "hang"
						}
						if n, _ := fmt.Sscanf(lines[j], "BEGIN %d %d", &idx, &sd); n == 2 {
							found = true
							break
						}
					}
					lb, _ := os.ReadFile(logf)
					tail := string(lb)
					if len(tail) > 200000 {
						tail = tail[:200000]
					}
					if !found {
						results[i].err = fmt.Errorf("worker died before its first run: %v: %s", err, tail)
						return
					}
					results[i].crashes = append(results[i].crashes, crash{idx, sd, kind, tail, bin, extraEnv})
					done := (idx-(base+i))/nw + 1
					from = idx + nw
					remaining = per - done
				}
			}(i)
		}
		wg.Wait()
		return results
	}
	results := launch(self, 0, bud.runs, nil)
	raceRuns := 0
	if *racebin != "" {
		// second pass: the same simulation with the race detector watching the controlled schedules
		raceRuns = bud.runs / 6
		if raceRuns < 32 {
			raceRuns = 32
		}
		gorace := "GORACE=halt_on_error=1 exitcode=66"
		results = append(results, launch(*racebin, 1<<24, raceRuns, []string{gorace})...)
	}

	// merge
	tot := &workerOut{Ops: map[string]int{}, Probes: map[string]int{}, Faults: map[string]int{}, Pairings: map[string]int{},
		ForeignSig: map[string]int{}, Sigs: map[string]*world.Trace{}, SigCount: map[string]int{}, DiskTuples: map[string]int{}}
	states := map[uint64]struct{}{}
	inter := map[uint64]struct{}{}
	harnessFault := ""
	var allCrashes []crash
	for i, r := range results {
		if r.err != nil {
			harnessFault = fmt.Sprintf("worker %d: %v", i, r.err)
		}
		allCrashes = append(allCrashes, r.crashes...)
		for _, o := range r.outs {
			tot.Runs += o.Runs
			tot.Steps += o.Steps
			tot.Effective += o.Effective
			tot.NonTrivial += o.NonTrivial
			addMap(tot.Ops, o.Ops)
			addMap(tot.Probes, o.Probes)
			addMap(tot.Faults, o.Faults)
			addMap(tot.Pairings, o.Pairings)
			addMap(tot.ForeignSig, o.ForeignSig)
			addMap(tot.SigCount, o.SigCount)
			addMap(tot.DiskTuples, o.DiskTuples)
			tot.Foreign += o.Foreign
			tot.Unconf += o.Unconf
			tot.GCs += o.GCs
			tot.Decisions += o.Decisions
			tot.SchedRuns += o.SchedRuns
			tot.DetChecked += o.DetChecked
			tot.DetBad = append(tot.DetBad, o.DetBad...)
			for _, h := range o.States {
				states[h] = struct{}{}
			}
			for _, h := range o.Inter {
				inter[h] = struct{}{}
			}
			for s, t := range o.Sigs {
				if cur := tot.Sigs[s]; cur == nil || t.Index < cur.Index {
					tot.Sigs[s] = t
				}
			}
			if len(tot.Samples) < 3 {
				tot.Samples = append(tot.Samples, o.Samples...)
			}
		}
	}
	// a run that killed its worker (fatal error, out of memory, hang): reproduce it
	// alone in a fresh process from its seed; reproducible = the library did it.
	known := loadFindings(*verif)
	os.MkdirAll(filepath.Join(*verif, "replays"), 0o755)
	violations := 0
	knownHits := 0
	fatalSeen := map[string]bool{}
	for ci, c := range allCrashes {
		class := c.kind
		ls := strings.Split(c.log, "\n")
		for li, l := range ls {
			if strings.HasPrefix(l, "fatal error:") || strings.HasPrefix(l, "panic:") || strings.HasPrefix(l, "runtime: out of memory") {
				class = l
				break
			}
			if strings.HasPrefix(l, "WARNING: DATA RACE") {
				// first library frame of each side names the race
				var frames []string
				for _, m := range ls[li:] {
					m = strings.TrimSpace(m)
					if strings.HasPrefix(m, "github.com/RoaringBitmap/roaring") && strings.Contains(m, "(") {
						fn := m[strings.LastIndex(m, "/")+1:]
						if i := strings.Index(fn, "("); i > 0 {
							fn = fn[:i]
						}
						if len(frames) == 0 || frames[len(frames)-1] != fn {
							frames = append(frames, fn)
						}
						if len(frames) == 2 {
							break
						}
					}
				}
				class = "DATA RACE " + strings.Join(frames, " vs ")
				break
			}
		}
		if c.kind == "hang" && !hangInLibrary(c.log) {
			// the time went into the harness (or nothing identifiable): that is our problem, not a verdict
			fmt.Printf("WORKER-HANG in harness code (index %d seed %d): not attributed to the library\n%s\n", c.idx, c.seed, firstLines(c.log, 14))
			harnessFault = "a run exceeded the per-run time limit inside harness code"
			continue
		}
		sig := *prop + "|fatal|" + c.kind + "|" + classSig(class)
		tot.Faults["worker-process-killed-by-run"]++
		if fatalSeen[sig] || ci >= 6 {
			continue
		}
		fatalSeen[sig] = true
		tr := &world.Trace{Prop: *prop, Profile: *profile, Seed: c.seed, Index: c.idx, Note: "by-seed",
			Fails: []world.Failure{{Prop: *prop, Oracle: "fatal", Op: c.kind, Class: classSig(class), Detail: firstLines(c.log, 80)}}}
		tb, _ := json.MarshalIndent(tr, "", " ")
		name := filepath.Join(*verif, "replays", fmt.Sprintf("%s-%d-fatal.json", *prop, c.seed))
		os.WriteFile(name, tb, 0o644)
		code := runBinTimeout(c.bin, c.env, 200*time.Second, "replay", "-q", name)
		if code == 0 || code == 1 {
			fmt.Printf("WORKER-CRASH not reproducible from its seed (index %d seed %d): %s\n", c.idx, c.seed, class)
			harnessFault = "a worker died and the run does not reproduce: " + class
			os.Remove(name)
			continue
		}
		if f := matchFinding(known, *prop, sig); f != nil {
			fmt.Printf("KNOWN-FINDING: property=%s %s [sig %s]\n", *prop, f.What, sig)
			knownHits++
			continue
		}
		violations++
		fmt.Printf("VIOLATION property=%s replay=%s\n  sig=%s\n  the run kills its process (%s); index=%d seed=%d\n  %s\n", *prop, name, sig, c.kind, c.idx, c.seed, firstLines(c.log, 12))
	}
	if len(tot.DetBad) > 0 {
		harnessFault = "determinism self-check failed: " + strings.Join(tot.DetBad, "; ")
	}

	// triage signatures
	var sigs []string
	for s := range tot.Sigs {
		sigs = append(sigs, s)
	}
	sort.Slice(sigs, func(i, j int) bool { return tot.Sigs[sigs[i]].Index < tot.Sigs[sigs[j]].Index })
	reported := 0
	for _, s := range sigs {
		tr := tot.Sigs[s]
		if f := matchFinding(known, *prop, s); f != nil {
			fmt.Printf("KNOWN-FINDING: property=%s %s [sig %s, seen %d times]\n", *prop, f.What, s, tot.SigCount[s])
			knownHits++
			continue
		}
		violations++
		if reported >= 4 {
			fmt.Printf("VIOLATION-ALSO property=%s sig=%s (seen %d times, not minimised)\n", *prop, s, tot.SigCount[s])
			continue
		}
		reported++
		// confirm in a fresh process, minimise in a fresh process, confirm again
		raw := filepath.Join(scratch, fmt.Sprintf("raw-%d.json", reported))
		rb, _ := json.Marshal(tr)
		os.WriteFile(raw, rb, 0o644)
		name := fmt.Sprintf("%s-%d-%d.json", *prop, tr.Seed, reported)
		final := filepath.Join(*verif, "replays", name)
		code := runSelf(self, "replay", "-q", "-sig", s, raw)
		if code != 1 {
			fmt.Printf("NOT-CONFIRMED property=%s sig=%s index=%d seed=%d (fresh-process replay exit %d) — treated as harness fault\n", *prop, s, tr.Index, tr.Seed, code)
			if d := os.Getenv("VERIF_KEEP_NONREPRO"); d != "" {
				os.WriteFile(filepath.Join(d, fmt.Sprintf("nonrepro-%s-%d.json", *prop, tr.Seed)), rb, 0o644)
			}
			harnessFault = "a failure did not reproduce on replay: " + s
			violations--
			continue
		}
		mcode := runSelf(self, "replay", "-sig", s, "-minimise", final, raw)
		if mcode != 1 || runSelf(self, "replay", "-q", "-sig", s, final) != 1 {
			// fall back to the unminimised trace
			os.WriteFile(final, rb, 0o644)
		}
		var detail string
		for _, f := range tr.Fails {
			if f.Sig() == s {
				detail = f.Detail
				break
			}
		}
		fmt.Printf("VIOLATION property=%s replay=%s\n  sig=%s\n  seen=%d first-seed=%d index=%d\n  %s\n", *prop, final, s, tot.SigCount[s], tr.Seed, tr.Index, detail)
	}

	// evidence
	wall := time.Since(start).Seconds()
	distinct := len(states)
	rule := "one evaluation = one seeded history (sequence of concrete steps on the simulated world, executed against the real library and the reference model, invariants after every step); non-trivial = at least 3 effective steps; distinct = distinct abstract world states reached (per chunk: kind, cardinality bucket, shared flag; plus the op that led there)"
	if len(inter) > 0 {
		distinct = len(inter)
		rule = "one evaluation = one seeded history on the simulated world executed under the deterministic scheduler; distinct = distinct interleaving fingerprints (per synchronisation object, the sequence of goroutine ids operating on it) among runs with at least 2 context switches"
	}
	// representation-pairing cells (op x kind x kind) actually reached, of the 81 possible
	cells := map[string]bool{}
	for k := range tot.Pairings {
		if i := strings.IndexByte(k, ':'); i > 0 && len(k) >= i+3 {
			cells[k[:i+3]] = true
		}
	}
	var samples []interface{}
	for _, t := range tot.Samples {
		if len(samples) >= 3 {
			break
		}
		var ss []string
		for _, st := range t.Steps {
			ss = append(ss, st.String())
		}
		samples = append(samples, map[string]interface{}{"seed": t.Seed, "index": t.Index, "steps": ss})
	}
	if len(samples) == 0 {
		samples = append(samples, "no sample recorded")
	}
	ev := map[string]interface{}{
		"property_id": *prop, "tier": *tier, "seed": seed, "level": *level,
		"wall_s": wall, "violations": violations,
		"coverage": map[string]interface{}{
			"evaluations":           tot.Runs,
			"distinct_nontrivial":   distinct,
			"nontrivial_runs":       tot.NonTrivial,
			"rule":                  rule,
			"samples":               samples,
			"steps_executed":        tot.Steps,
			"effective_steps":       tot.Effective,
			"runs_per_hour":         int(float64(tot.Runs) / wall * 3600),
			"simulated_time":        "none: the library has no clock; logical steps are reported instead",
			"ops":                   tot.Ops,
			"rare_condition_probes": tot.Probes,
			"faults_fired":          tot.Faults,
			"disk_tuples":           len(tot.DiskTuples),
			"representation_pairings": tot.Pairings,
			"pairing_cells_reached": fmt.Sprintf("%d of 81 (9 operations incl. in-place and cardinality shortcuts x 3 x 3 chunk kinds)", len(cells)),
			"collections_triggered": tot.GCs,
			"scheduler_decisions":   tot.Decisions,
			"simulated_executions_under_scheduler": tot.SchedRuns,
			"distinct_interleavings": len(inter),
			"distinct_states":       len(states),
			"foreign_divergence":    tot.Foreign,
			"foreign_signatures":    tot.ForeignSig,
			"structural_unconfirmed": tot.Unconf,
			"known_finding_hits":    knownHits,
			"determinism_rechecked": tot.DetChecked,
			"build":                 *mode,
			"runs_planned":          bud.runs + raceRuns,
			"stopped_early_by_wall_cap": tot.Runs < bud.runs,
			"race_detector_runs":    raceRuns,
			"components_real":       []string{"every line of the library (built from /repo's working tree with -tags verif)", "Go runtime, collector (fired as a step)", "mmap/mprotect"},
			"components_stub":       []string{"io.Writer/io.Reader (simio)", "caller-owned buffers (simio regions)", "goroutine choice, select choice, sync.Pool recycling, NumCPU (simrt, in instrumented builds)"},
		},
		"assumptions": []string{"reference model (naive bit arrays) is correct", "observation through the public API (ToArray/GetCardinality/Contains)", "sampling, not enumeration, of histories"},
	}
	eb, _ := json.MarshalIndent(ev, "", " ")
	os.MkdirAll(filepath.Join(*verif, "evidence"), 0o755)
	if err := os.WriteFile(filepath.Join(*verif, "evidence", *prop+".json"), eb, 0o644); err != nil {
		fmt.Fprintln(os.Stderr, err)
		return 2
	}
	if tot.Runs < bud.runs {
		fmt.Printf("NOTE: only %d of %d planned runs were executed (wall-clock cap %v or lost workers)\n", tot.Runs, bud.runs, bud.wallCap)
	}
	fmt.Printf("done property=%s runs=%d steps=%d states=%d foreign=%d known=%d violations=%d wall=%.1fs\n", *prop, tot.Runs, tot.Steps, len(states), tot.Foreign, knownHits, violations, wall)
	if violations > 0 {
		return 1
	}
	if harnessFault != "" {
		fmt.Println("HARNESS-FAULT", harnessFault)
		return 2
	}
	return 0
}

// hangInLibrary looks at the goroutine dump of a run that exceeded its time limit: it is the
// library's hang only if a running or runnable goroutine is executing library code.
func hangInLibrary(log string) bool {
	blocks := strings.Split(log, "\n\n")
	for _, b := range blocks {
		lines := strings.Split(strings.TrimSpace(b), "\n")
		if len(lines) < 2 || !strings.HasPrefix(lines[0], "goroutine ") {
			continue
		}
		// running, runnable or blocked (a deadlock among real goroutines in the plain build)
		for _, l := range lines[1:] {
			if strings.HasPrefix(l, "\t") || strings.HasPrefix(l, "runtime.") || strings.HasPrefix(l, "runtime/") || strings.HasPrefix(l, "main.cmdWorker.func") {
				continue
			}
			if strings.HasPrefix(l, "github.com/RoaringBitmap/roaring/v2") && !strings.Contains(l, ".Verif") {
				return true
			}
			break // innermost non-runtime frame is not library code
		}
	}
	return false
}

func classSig(s string) string {
	out := []byte(s)
	for i, c := range out {
		if c >= '0' && c <= '9' {
			out[i] = '#'
		}
	}
	if len(out) > 80 {
		out = out[:80]
	}
	return string(out)
}

func firstLines(s string, n int) string {
	l := strings.Split(s, "\n")
	if len(l) > n {
		l = l[:n]
	}
	return strings.Join(l, "\n  ")
}

func runBinTimeout(bin string, env []string, d time.Duration, args ...string) int {
	cmd := exec.Command(bin, args...)
	cmd.Env = append(append(os.Environ(), "GODEBUG=clobberfree=1", "GOTRACEBACK=single"), env...)
	if err := cmd.Start(); err != nil {
		return 2
	}
	done := make(chan error, 1)
	go func() { done <- cmd.Wait() }()
	select {
	case err := <-done:
		if err == nil {
			return 0
		}
		if ee, ok := err.(*exec.ExitError); ok {
			return ee.ExitCode()
		}
		return 2
	case <-time.After(d):
		cmd.Process.Kill()
		return -9
	}
}

func runSelf(self string, args ...string) int {
	cmd := exec.Command(self, args...)
	cmd.Env = append(os.Environ(), "GODEBUG=clobberfree=1", "GOTRACEBACK=single")
	out, err := cmd.CombinedOutput()
	_ = out
	if err == nil {
		return 0
	}
	if ee, ok := err.(*exec.ExitError); ok {
		return ee.ExitCode()
	}
	return 2
}
