// vsim is the runner: check | worker | replay | minimise.
//
//	vsim check -prop C02 -tier quick      orchestrates worker processes, confirms,
//	                                      minimises, writes evidence, prints verdict
//	vsim worker ...                       runs a slice of run indices (internal)
//	vsim replay <file>                    replays a recorded trace in this process
package main

import (
	"encoding/json"
	"flag"
	"fmt"
	"os"
	"os/exec"
	"path/filepath"
	"runtime"
	"runtime/debug"
	"sort"
	"strconv"
	"strings"
	"sync"
	"time"

	"verif/world"
)

const defaultSeed = 20260925

type workerOut struct {
	Runs       int                      `json:"runs"`
	Steps      int                      `json:"steps"`
	Effective  int                      `json:"effective"`
	NonTrivial int                      `json:"nontrivial"`
	Ops        map[string]int           `json:"ops"`
	Probes     map[string]int           `json:"probes"`
	Faults     map[string]int           `json:"faults"`
	Pairings   map[string]int           `json:"pairings"`
	Foreign    int                      `json:"foreign"`
	ForeignSig map[string]int           `json:"foreign_sigs"`
	Unconf     int                      `json:"struct_unconfirmed"`
	States     []uint64                 `json:"states"`
	Inter      []uint64                 `json:"interleavings"`
	DiskTuples map[string]int           `json:"disk_tuples"`
	GCs        int                      `json:"gcs"`
	Decisions  int                      `json:"decisions"`
	DetChecked int                      `json:"determinism_rechecked"`
	DetBad     []string                 `json:"determinism_mismatch,omitempty"`
	Sigs       map[string]*world.Trace  `json:"sigs"` // first trace per failure signature
	SigCount   map[string]int           `json:"sig_count"`
	Samples    []*world.Trace           `json:"samples"`
}

func addMap(dst, src map[string]int) {
	for k, v := range src {
		dst[k] += v
	}
}

func main() {
	if len(os.Args) < 2 {
		fmt.Fprintln(os.Stderr, "usage: vsim check|worker|replay ...")
		os.Exit(2)
	}
	switch os.Args[1] {
	case "check":
		os.Exit(cmdCheck(os.Args[2:]))
	case "worker":
		os.Exit(cmdWorker(os.Args[2:]))
	case "replay":
		os.Exit(cmdReplay(os.Args[2:]))
	default:
		fmt.Fprintln(os.Stderr, "unknown command", os.Args[1])
		os.Exit(2)
	}
}

func traceHash(tr *world.Trace) string {
	b, _ := json.Marshal(struct {
		S []world.Step
		F []world.Failure
	}{tr.Steps, tr.Fails})
	return fmt.Sprintf("%016x", world.HashStr(string(b)))
}

// ------------------------------------------------------------------ worker

func cmdWorker(args []string) int {
	fs := flag.NewFlagSet("worker", flag.ExitOnError)
	prop := fs.String("prop", "", "property id")
	profile := fs.String("profile", "", "op profile (default: property)")
	seed := fs.Uint64("seed", defaultSeed, "master seed")
	from := fs.Int("from", 0, "first run index")
	stride := fs.Int("stride", 1, "index stride")
	count := fs.Int("count", 1, "number of runs")
	out := fs.String("out", "", "result file")
	intent := fs.String("intent", "", "intent log")
	deadline := fs.Int64("deadline", 0, "unix seconds after which no new run starts")
	fs.Parse(args)

	debug.SetGCPercent(-1)
	debug.SetMemoryLimit(6 << 30)
	var ilog *os.File
	if *intent != "" {
		ilog, _ = os.OpenFile(*intent, os.O_CREATE|os.O_WRONLY|os.O_TRUNC, 0o644)
	}
	res := &workerOut{Ops: map[string]int{}, Probes: map[string]int{}, Faults: map[string]int{}, Pairings: map[string]int{},
		ForeignSig: map[string]int{}, Sigs: map[string]*world.Trace{}, SigCount: map[string]int{}, DiskTuples: map[string]int{}}
	states := map[uint64]struct{}{}
	inter := map[uint64]struct{}{}
	for k := 0; k < *count; k++ {
		if *deadline > 0 && time.Now().Unix() > *deadline {
			break
		}
		idx := *from + k**stride
		s := world.Mix(*seed, world.HashStr(*prop), uint64(idx))
		if ilog != nil {
			fmt.Fprintf(ilog, "BEGIN %d %d\n", idx, s)
		}
		tr, st := world.RunSeed(*prop, *profile, s, idx)
		res.Runs++
		res.Steps += st.Steps
		res.Effective += st.Effective
		if st.Effective >= 3 {
			res.NonTrivial++
		}
		addMap(res.Ops, st.Ops)
		addMap(res.Probes, st.Probes)
		addMap(res.Faults, st.Faults)
		addMap(res.Pairings, st.Pairings)
		addMap(res.ForeignSig, st.ForeignSigs)
		addMap(res.DiskTuples, st.DiskTuples)
		res.Foreign += st.Foreign
		res.Unconf += st.StructUnconf
		res.GCs += st.GCs
		res.Decisions += st.Decisions
		for h := range st.States {
			states[h] = struct{}{}
		}
		for h := range st.Interleavings {
			inter[h] = struct{}{}
		}
		for _, f := range tr.Fails {
			sig := f.Sig()
			res.SigCount[sig]++
			if res.Sigs[sig] == nil {
				res.Sigs[sig] = tr
			}
		}
		if len(res.Samples) < 2 && st.Effective >= 3 && len(tr.Steps) <= 40 {
			res.Samples = append(res.Samples, tr)
		}
		// built-in determinism check on a sample of runs: same seed, same trace
		if k%16 == 0 {
			tr2, _ := world.RunSeed(*prop, *profile, s, idx)
			res.DetChecked++
			if traceHash(tr) != traceHash(tr2) {
				res.DetBad = append(res.DetBad, fmt.Sprintf("index %d seed %d", idx, s))
			}
		}
		runtime.GC()
	}
	for h := range states {
		res.States = append(res.States, h)
	}
	for h := range inter {
		res.Inter = append(res.Inter, h)
	}
	b, _ := json.Marshal(res)
	if *out != "" {
		if err := os.WriteFile(*out, b, 0o644); err != nil {
			fmt.Fprintln(os.Stderr, err)
			return 2
		}
	}
	return 0
}

// ------------------------------------------------------------------ replay

func cmdReplay(args []string) int {
	fs := flag.NewFlagSet("replay", flag.ExitOnError)
	minimise := fs.String("minimise", "", "write a minimised trace here (for the signature given by -sig)")
	sig := fs.String("sig", "", "failure signature to look for (default: first recorded)")
	quiet := fs.Bool("q", false, "quiet")
	fs.Parse(args)
	if fs.NArg() < 1 {
		fmt.Fprintln(os.Stderr, "usage: vsim replay [-minimise out -sig s] <file>")
		return 2
	}
	b, err := os.ReadFile(fs.Arg(0))
	if err != nil {
		fmt.Fprintln(os.Stderr, err)
		return 2
	}
	var tr world.Trace
	if err := json.Unmarshal(b, &tr); err != nil {
		fmt.Fprintln(os.Stderr, err)
		return 2
	}
	debug.SetGCPercent(-1)
	debug.SetMemoryLimit(6 << 30)
	want := *sig
	if want == "" && len(tr.Fails) > 0 {
		want = tr.Fails[0].Sig()
	}
	if *minimise != "" {
		m := world.Minimise(&tr, want, 400)
		mb, _ := json.MarshalIndent(m, "", " ")
		if err := os.WriteFile(*minimise, mb, 0o644); err != nil {
			fmt.Fprintln(os.Stderr, err)
			return 2
		}
		if len(m.Fails) == 0 {
			return 3
		}
		return 1
	}
	fails, _ := world.Replay(&tr)
	hit := false
	for _, f := range fails {
		if !*quiet {
			fmt.Printf("FAILURE step=%d sig=%s\n  %s\n", f.Step, f.Sig(), f.Detail)
		}
		if want == "" || f.Sig() == want {
			hit = true
		}
	}
	if hit {
		fmt.Printf("REPRODUCED property=%s sig=%s\n", tr.Prop, want)
		return 1
	}
	fmt.Println("NOT-REPRODUCED")
	return 0
}

// ------------------------------------------------------------------ check

type finding struct {
	Property string `json:"property"`
	Status   string `json:"status"` // known | fixed
	Sig      string `json:"sig"`    // exact signature, or prefix ending in '*'
	What     string `json:"what"`
	Commit   string `json:"commit,omitempty"`
}

func loadFindings(dir string) []finding {
	b, err := os.ReadFile(filepath.Join(dir, "known_findings.json"))
	if err != nil {
		return nil
	}
	var f struct {
		Findings []finding `json:"findings"`
	}
	if json.Unmarshal(b, &f) != nil {
		fmt.Fprintln(os.Stderr, "known_findings.json does not parse")
		os.Exit(2)
	}
	return f.Findings
}

func matchFinding(fs []finding, prop, sig string) *finding {
	for i := range fs {
		f := &fs[i]
		if f.Status != "known" || f.Property != prop {
			continue
		}
		if f.Sig == sig || (strings.HasSuffix(f.Sig, "*") && strings.HasPrefix(sig, strings.TrimSuffix(f.Sig, "*"))) {
			return f
		}
	}
	return nil
}

type tierCfg struct {
	runs    int
	wallCap time.Duration
}

func budget(prop, tier string) tierCfg {
	q := map[string]int{"C01": 6000, "C02": 6000, "C04": 5000, "C05": 1500, "C07": 5000, "C08": 4000, "C09": 6000, "C10": 1200,
		"C11": 4000, "C12": 3000, "C13": 2500, "C14": 6000, "C16": 5000, "C17": 5000, "C18": 1500, "C19": 4000, "C20": 3000}
	n := q[prop]
	if n == 0 {
		n = 3000
	}
	if v := os.Getenv("VERIF_RUNS"); v != "" {
		if x, err := strconv.Atoi(v); err == nil {
			return tierCfg{x, 4 * time.Hour}
		}
	}
	if tier == "thorough" {
		return tierCfg{n * 12, 40 * time.Minute}
	}
	return tierCfg{n, 150 * time.Second}
}

func cmdCheck(args []string) int {
	fs := flag.NewFlagSet("check", flag.ExitOnError)
	prop := fs.String("prop", "", "property id")
	tier := fs.String("tier", "", "quick|thorough (default $VERIF_TIER or quick)")
	profile := fs.String("profile", "", "op profile override")
	level := fs.String("level", "exploration", "evidence level")
	verif := fs.String("verif", "/verif", "verif directory")
	workers := fs.Int("workers", runtime.NumCPU(), "worker processes")
	fs.Parse(args)
	if *tier == "" {
		*tier = os.Getenv("VERIF_TIER")
	}
	if *tier != "thorough" {
		*tier = "quick"
	}
	seed := uint64(defaultSeed)
	if v := os.Getenv("VERIF_SEED"); v != "" {
		if x, err := strconv.ParseUint(v, 10, 64); err == nil {
			seed = x
		} else if y, err := strconv.ParseInt(v, 10, 64); err == nil {
			seed = uint64(y)
		}
	}
	start := time.Now()
	bud := budget(*prop, *tier)
	self, _ := os.Executable()
	scratch, err := os.MkdirTemp("", "vsim-"+*prop+"-")
	if err != nil {
		fmt.Fprintln(os.Stderr, err)
		return 2
	}
	defer os.RemoveAll(scratch)
	fmt.Printf("vsim check property=%s tier=%s seed=%d runs=%d workers=%d\n", *prop, *tier, seed, bud.runs, *workers)

	nw := *workers
	if nw > bud.runs {
		nw = bud.runs
	}
	per := (bud.runs + nw - 1) / nw
	deadline := start.Add(bud.wallCap).Unix()
	type wres struct {
		out   *workerOut
		err   error
		crash string
	}
	results := make([]wres, nw)
	var wg sync.WaitGroup
	for i := 0; i < nw; i++ {
		wg.Add(1)
		go func(i int) {
			defer wg.Done()
			outf := filepath.Join(scratch, fmt.Sprintf("w%d.json", i))
			intent := filepath.Join(scratch, fmt.Sprintf("w%d.intent", i))
			logf := filepath.Join(scratch, fmt.Sprintf("w%d.log", i))
			cmd := exec.Command(self, "worker", "-prop", *prop, "-profile", *profile, "-seed", fmt.Sprint(seed),
				"-from", fmt.Sprint(i), "-stride", fmt.Sprint(nw), "-count", fmt.Sprint(per), "-out", outf, "-intent", intent,
				"-deadline", fmt.Sprint(deadline))
			cmd.Env = append(os.Environ(), "GODEBUG=clobberfree=1", "GOTRACEBACK=single")
			lf, _ := os.Create(logf)
			cmd.Stdout, cmd.Stderr = lf, lf
			err := cmd.Run()
			lf.Close()
			if err != nil {
				ib, _ := os.ReadFile(intent)
				lines := strings.Split(strings.TrimSpace(string(ib)), "\n")
				lb, _ := os.ReadFile(logf)
				tail := string(lb)
				if len(tail) > 3000 {
					tail = tail[:3000]
				}
				results[i] = wres{err: err, crash: lines[len(lines)-1] + "\n" + tail}
				return
			}
			b, err := os.ReadFile(outf)
			if err != nil {
				results[i] = wres{err: err}
				return
			}
			var o workerOut
			if err := json.Unmarshal(b, &o); err != nil {
				results[i] = wres{err: err}
				return
			}
			results[i] = wres{out: &o}
		}(i)
	}
	wg.Wait()

	// merge
	tot := &workerOut{Ops: map[string]int{}, Probes: map[string]int{}, Faults: map[string]int{}, Pairings: map[string]int{},
		ForeignSig: map[string]int{}, Sigs: map[string]*world.Trace{}, SigCount: map[string]int{}, DiskTuples: map[string]int{}}
	states := map[uint64]struct{}{}
	inter := map[uint64]struct{}{}
	harnessFault := ""
	var crashes []string
	for i, r := range results {
		if r.err != nil {
			if r.crash != "" {
				crashes = append(crashes, fmt.Sprintf("worker %d: %v: %s", i, r.err, r.crash))
			} else {
				harnessFault = fmt.Sprintf("worker %d: %v", i, r.err)
			}
			continue
		}
		o := r.out
		tot.Runs += o.Runs
		tot.Steps += o.Steps
		tot.Effective += o.Effective
		tot.NonTrivial += o.NonTrivial
		addMap(tot.Ops, o.Ops)
		addMap(tot.Probes, o.Probes)
		addMap(tot.Faults, o.Faults)
		addMap(tot.Pairings, o.Pairings)
		addMap(tot.ForeignSig, o.ForeignSig)
		addMap(tot.SigCount, o.SigCount)
		addMap(tot.DiskTuples, o.DiskTuples)
		tot.Foreign += o.Foreign
		tot.Unconf += o.Unconf
		tot.GCs += o.GCs
		tot.Decisions += o.Decisions
		tot.DetChecked += o.DetChecked
		tot.DetBad = append(tot.DetBad, o.DetBad...)
		for _, h := range o.States {
			states[h] = struct{}{}
		}
		for _, h := range o.Inter {
			inter[h] = struct{}{}
		}
		for s, t := range o.Sigs {
			if cur := tot.Sigs[s]; cur == nil || t.Index < cur.Index {
				tot.Sigs[s] = t
			}
		}
		if len(tot.Samples) < 3 {
			tot.Samples = append(tot.Samples, o.Samples...)
		}
	}
	if len(crashes) > 0 {
		// a worker died: fatal error inside a run. Attribute, but a dead process is
		// first of all a harness matter: exit 2 with the seed so that it can be examined.
		for _, c := range crashes {
			fmt.Println("WORKER-CRASH", c)
		}
		harnessFault = "worker process crashed (see WORKER-CRASH lines)"
	}
	if len(tot.DetBad) > 0 {
		harnessFault = "determinism self-check failed: " + strings.Join(tot.DetBad, "; ")
	}

	// triage signatures
	known := loadFindings(*verif)
	var sigs []string
	for s := range tot.Sigs {
		sigs = append(sigs, s)
	}
	sort.Slice(sigs, func(i, j int) bool { return tot.Sigs[sigs[i]].Index < tot.Sigs[sigs[j]].Index })
	violations := 0
	knownHits := 0
	os.MkdirAll(filepath.Join(*verif, "replays"), 0o755)
	reported := 0
	for _, s := range sigs {
		tr := tot.Sigs[s]
		if f := matchFinding(known, *prop, s); f != nil {
			fmt.Printf("KNOWN-FINDING: property=%s %s [sig %s, seen %d times]\n", *prop, f.What, s, tot.SigCount[s])
			knownHits++
			continue
		}
		violations++
		if reported >= 4 {
			fmt.Printf("VIOLATION-ALSO property=%s sig=%s (seen %d times, not minimised)\n", *prop, s, tot.SigCount[s])
			continue
		}
		reported++
		// confirm in a fresh process, minimise in a fresh process, confirm again
		raw := filepath.Join(scratch, fmt.Sprintf("raw-%d.json", reported))
		rb, _ := json.Marshal(tr)
		os.WriteFile(raw, rb, 0o644)
		name := fmt.Sprintf("%s-%d-%d.json", *prop, tr.Seed, reported)
		final := filepath.Join(*verif, "replays", name)
		code := runSelf(self, "replay", "-q", "-sig", s, raw)
		if code != 1 {
			fmt.Printf("NOT-CONFIRMED property=%s sig=%s (fresh-process replay exit %d) — treated as harness fault\n", *prop, s, code)
			harnessFault = "a failure did not reproduce on replay: " + s
			violations--
			continue
		}
		mcode := runSelf(self, "replay", "-sig", s, "-minimise", final, raw)
		if mcode != 1 || runSelf(self, "replay", "-q", "-sig", s, final) != 1 {
			// fall back to the unminimised trace
			os.WriteFile(final, rb, 0o644)
		}
		var detail string
		for _, f := range tr.Fails {
			if f.Sig() == s {
				detail = f.Detail
				break
			}
		}
		fmt.Printf("VIOLATION property=%s replay=%s\n  sig=%s\n  seen=%d first-seed=%d index=%d\n  %s\n", *prop, final, s, tot.SigCount[s], tr.Seed, tr.Index, detail)
	}

	// evidence
	wall := time.Since(start).Seconds()
	distinct := len(states)
	rule := "one evaluation = one seeded history (sequence of concrete steps on the simulated world, executed against the real library and the reference model, invariants after every step); non-trivial = at least 3 effective steps; distinct = distinct abstract world states reached (per chunk: kind, cardinality bucket, shared flag; plus the op that led there)"
	if len(inter) > 0 {
		distinct = len(inter)
		rule = "one evaluation = one seeded history on the simulated world executed under the deterministic scheduler; distinct = distinct interleaving fingerprints (per synchronisation object, the sequence of goroutine ids operating on it) among runs with at least 2 context switches"
	}
	var samples []interface{}
	for _, t := range tot.Samples {
		if len(samples) >= 3 {
			break
		}
		var ss []string
		for _, st := range t.Steps {
			ss = append(ss, st.String())
		}
		samples = append(samples, map[string]interface{}{"seed": t.Seed, "index": t.Index, "steps": ss})
	}
	if len(samples) == 0 {
		samples = append(samples, "no sample recorded")
	}
	ev := map[string]interface{}{
		"property_id": *prop, "tier": *tier, "seed": seed, "level": *level,
		"wall_s": wall, "violations": violations,
		"coverage": map[string]interface{}{
			"evaluations":           tot.Runs,
			"distinct_nontrivial":   distinct,
			"nontrivial_runs":       tot.NonTrivial,
			"rule":                  rule,
			"samples":               samples,
			"steps_executed":        tot.Steps,
			"effective_steps":       tot.Effective,
			"runs_per_hour":         int(float64(tot.Runs) / wall * 3600),
			"simulated_time":        "none: the library has no clock; logical steps are reported instead",
			"ops":                   tot.Ops,
			"rare_condition_probes": tot.Probes,
			"faults_fired":          tot.Faults,
			"disk_tuples":           len(tot.DiskTuples),
			"representation_pairings": tot.Pairings,
			"collections_triggered": tot.GCs,
			"scheduler_decisions":   tot.Decisions,
			"distinct_interleavings": len(inter),
			"distinct_states":       len(states),
			"foreign_divergence":    tot.Foreign,
			"foreign_signatures":    tot.ForeignSig,
			"structural_unconfirmed": tot.Unconf,
			"known_finding_hits":    knownHits,
			"determinism_rechecked": tot.DetChecked,
			"components_real":       []string{"every line of the library (built from /repo's working tree with -tags verif)", "Go runtime, collector (fired as a step)", "mmap/mprotect"},
			"components_stub":       []string{"io.Writer/io.Reader (simio)", "caller-owned buffers (simio regions)", "goroutine choice, select choice, sync.Pool recycling, NumCPU (simrt, in instrumented builds)"},
		},
		"assumptions": []string{"reference model (naive bit arrays) is correct", "observation through the public API (ToArray/GetCardinality/Contains)", "sampling, not enumeration, of histories"},
	}
	eb, _ := json.MarshalIndent(ev, "", " ")
	os.MkdirAll(filepath.Join(*verif, "evidence"), 0o755)
	if err := os.WriteFile(filepath.Join(*verif, "evidence", *prop+".json"), eb, 0o644); err != nil {
		fmt.Fprintln(os.Stderr, err)
		return 2
	}
	fmt.Printf("done property=%s runs=%d steps=%d states=%d foreign=%d known=%d violations=%d wall=%.1fs\n", *prop, tot.Runs, tot.Steps, len(states), tot.Foreign, knownHits, violations, wall)
	if violations > 0 {
		return 1
	}
	if harnessFault != "" {
		fmt.Println("HARNESS-FAULT", harnessFault)
		return 2
	}
	return 0
}

func runSelf(self string, args ...string) int {
	cmd := exec.Command(self, args...)
	cmd.Env = append(os.Environ(), "GODEBUG=clobberfree=1", "GOTRACEBACK=single")
	out, err := cmd.CombinedOutput()
	_ = out
	if err == nil {
		return 0
	}
	if ee, ok := err.(*exec.ExitError); ok {
		return ee.ExitCode()
	}
	return 2
}
