package world

import (
	"bytes"
	"encoding/base64"
	"fmt"
	"sort"
	"strings"

	"github.com/RoaringBitmap/roaring/v2"

	"verif/model"
	"verif/simio"
)

const maxRegions = 10

var sentinel = []byte{0xA5, 0x5A, 0xA5, 0x5A, 0xDE, 0xAD, 0xBE, 0xEF, 0xA5, 0x5A, 0xA5, 0x5A, 0xDE, 0xAD, 0xBE, 0xEF}

// addRegion creates a read-only region holding data.
func (w *World) addRegion(data []byte, kind, prop string, align int) (int, *simio.Region) {
	reg, err := simio.NewRegion(data, kind, prop, align)
	if err != nil {
		panic("harness: mmap failed: " + err.Error())
	}
	reg.ReadOnly()
	w.Regs = append(w.Regs, reg)
	w.St.Faults["region-created-readonly"]++
	return len(w.Regs) - 1, reg
}

func (w *World) regionsLive() int {
	n := 0
	for _, r := range w.Regs {
		if r != nil && r.State() != 2 {
			n++
		}
	}
	return n
}

var wEntryNames = []string{"WriteTo", "ToBytes", "MarshalBinary", "ToBase64"}
var rEntryNames = []string{"ReadFrom", "FromBuffer", "FromUnsafeBytes", "UnmarshalBinary", "FromBase64", "FrozenView"}

// serialize writes bm through entry point e; returns bytes, reported n (or -1), error.
func serialize(bm *roaring.Bitmap, e int) (data []byte, n int64, err error) {
	switch e {
	case 0:
		fw := &simio.FaultyWriter{}
		n, err = bm.WriteTo(fw)
		return fw.Data, n, err
	case 1:
		data, err = bm.ToBytes()
		return data, -1, err
	case 2:
		data, err = bm.MarshalBinary()
		return data, -1, err
	default:
		var s string
		s, err = bm.ToBase64()
		if err != nil {
			return nil, -1, err
		}
		data, err = base64.StdEncoding.DecodeString(s)
		return data, -1, err
	}
}

func chunkSizes(seed uint64) []int {
	r := NewRng(seed)
	switch r.Intn(5) {
	case 0:
		return nil // as much as asked
	case 1:
		return []int{1}
	case 2:
		return []int{1, 0, 2, 3, 0, 0, 7}
	case 3:
		n := 1 + r.Intn(6)
		out := make([]int, n)
		for i := range out {
			out[i] = 1 + r.Intn(9000)
		}
		return out
	default:
		return []int{4, 4, 2, 2, 8192, 1}
	}
}

// decode reads data through entry point e into dst. Returns consumed count
// (or -1 when the entry point does not report one), error, the region used
// (-1 if none) and the number of bytes the reader was asked for.
func (w *World) decode(dst *roaring.Bitmap, data []byte, e int, seed uint64, prop string) (p int64, err error, ri int, pulled int) {
	ri = -1
	pulled = -1
	r := NewRng(seed)
	switch e {
	case 0:
		rd := &simio.ChunkedReader{Data: append(append([]byte(nil), data...), sentinel...), Sizes: chunkSizes(seed), ErrAt: -1, EOFWith: r.Bool()}
		if seed>>20&3 == 0 && len(data) >= 4 && prop != "C10" {
			// the documented argument form for a caller that has already consumed the cookie:
			// ReadFrom(rest, cookie...) - the count it returns is that of the rest
			w.probe("readfrom-with-cookie-header")
			rd.Data = rd.Data[4:]
			p, err = dst.ReadFrom(rd, data[0], data[1], data[2], data[3])
			if err == nil {
				p += 4
			}
			pulled = rd.Pulled + 4
		} else {
			p, err = dst.ReadFrom(rd)
			pulled = rd.Pulled
		}
		scribble(rd.Data) // the stream's storage is gone once the call has returned
	case 1, 2:
		buf := data
		if r.Chance(1, 3) {
			buf = append(append([]byte(nil), data...), sentinel...)
		}
		var reg *simio.Region
		ri, reg = w.addRegion(buf, "portable", prop, 1)
		if e == 1 {
			p, err = dst.FromBuffer(reg.Bytes())
		} else {
			p, err = dst.FromUnsafeBytes(reg.Bytes())
		}
	case 3:
		// a copying entry point: the caller reuses its buffer as soon as the call has returned
		tmp := append([]byte(nil), data...)
		err = dst.UnmarshalBinary(tmp)
		scribble(tmp)
		p = -1
	case 4:
		txt := base64.StdEncoding.EncodeToString(data)
		if prop == "C10" && seed>>9&3 == 1 && len(txt) > 0 {
			// damage at the text level as well: an illegal character, a cut inside a quartet
			b := []byte(txt)
			switch seed >> 11 & 3 {
			case 0:
				b[int(seed>>13)%len(b)] = '!'
			case 1:
				b = b[:int(seed>>13)%len(b)]
			case 2:
				b[int(seed>>13)%len(b)] = '='
			default:
				b = append(b, 'A')
			}
			txt = string(b)
			w.St.Faults["base64-text-damaged"]++
		} else if seed>>15&3 == 0 && len(txt) > 0 {
			txt = wrapBase64(txt, seed>>17)
			w.probe("base64-text-line-wrapped")
		}
		p, err = dst.FromBase64(txt)
	case 5:
		var reg *simio.Region
		ri, reg = w.addRegion(data, "frozen", prop, 32)
		if r.Bool() {
			err = dst.FrozenView(reg.Bytes())
		} else {
			err = dst.MustFrozenView(reg.Bytes())
		}
		p = -1
	}
	return
}

func firstDiffByte(a, b []byte) int {
	for i := 0; i < len(a) && i < len(b); i++ {
		if a[i] != b[i] {
			return i
		}
	}
	if len(a) != len(b) {
		if len(a) < len(b) {
			return len(a)
		}
		return len(b)
	}
	return -1
}

// wrapBase64 lays Base64 text out the way mail, PEM or the base64 tool do: wrapped lines.
func wrapBase64(txt string, sel uint64) string {
	width := []int{76, 64, 4, 77}[sel&3]
	nl := []string{"\n", "\r\n"}[sel>>2&1]
	var sb strings.Builder
	for i := 0; i < len(txt); i += width {
		e := i + width
		if e > len(txt) {
			e = len(txt)
		}
		sb.WriteString(txt[i:e])
		sb.WriteString(nl)
	}
	return sb.String()
}

// scribble overwrites a transient buffer handed to a copying decoder (ReadFrom's stream,
// UnmarshalBinary's argument): only the zero-copy entry points may keep referring to it.
func scribble(b []byte) {
	for i := range b {
		b[i] = ^b[i] ^ 0x5A
	}
}

func (w *World) disk(entry, fault, region, outcome string) {
	w.St.DiskTuples[entry+"/"+fault+"/"+region+"/"+outcome]++
}

func init() {
	// ------------------------------------------------------------ round trip (C05)
	reg(&opDef{name: "rt", tag: "C05",
		gen: func(w *World, r *Rng) (Step, bool) {
			if w.regionsLive() >= maxRegions {
				return Step{}, false
			}
			src := w.slot(r)
			if r.Chance(4, 5) {
				src = w.nonEmptySlot(r)
			}
			dst := w.slot(r)
			reuse := uint64(0)
			if dst != src && r.Chance(1, 2) {
				reuse = 1
			}
			return Step{S: []int{dst, src}, A: []uint64{uint64(r.Intn(4)), uint64(r.Intn(5)), r.U64(), reuse}}, true
		},
		valid: func(w *World, st *Step) bool {
			return slotsOK(w, st, 2, 4) && st.A[0] < 4 && st.A[1] < 5 && w.regionsLive() < maxRegions+2
		},
		exec: func(w *World, st *Step) {
			src := w.B[st.S[1]]
			we, re := int(st.A[0]), int(st.A[1])
			var data []byte
			var n int64
			var err error
			if w.try("C05", func() { data, n, err = serialize(src.BM, we) }) {
				return
			}
			if err != nil {
				w.fail("C05", "write-error", "library-made bitmap refuses to serialize", fmt.Sprintf("%s on slot %d (%s): %v", wEntryNames[we], st.S[1], src.Prov, err))
				w.disk(wEntryNames[we], "none", "-", "write-error")
				return
			}
			var predicted uint64
			w.try("C05", func() { predicted = src.BM.GetSerializedSizeInBytes() })
			if uint64(len(data)) != predicted || (n >= 0 && n != int64(len(data))) {
				w.fail("C05", "byte-accounting", "size written differs from prediction or returned count", fmt.Sprintf("%s: wrote %d bytes, returned n=%d, GetSerializedSizeInBytes=%d", wEntryNames[we], len(data), n, predicted))
			}
			nc := len(src.M.Keys())
			switch {
			case nc == 0:
				w.probe("serialize-empty")
			case nc < 4:
				w.probe("serialize-lt4-chunks")
			default:
				w.probe("serialize-ge4-chunks")
			}
			if len(data) >= 4 && (uint32(data[0])|uint32(data[1])<<8) == 12347 {
				w.probe("serialize-run-cookie")
			}
			// decode
			dstObj := w.B[st.S[0]]
			var dst *roaring.Bitmap
			if st.A[3] == 1 && st.S[0] != st.S[1] {
				dst = dstObj.BM
				w.probe("decode-into-used-receiver")
			} else {
				dst = roaring.New()
			}
			var p int64
			var ri, pulled int
			if w.try("C05", func() { p, err, ri, pulled = w.decode(dst, data, re, st.A[2], "C08") }) {
				w.out(st.S[0])
				return
			}
			w.disk(rEntryNames[re], "none", "-", fmt.Sprint(err == nil))
			if we != 0 {
				scribble(data) // what ToBytes/MarshalBinary returned is the caller's: it is recycled now
			}
			var regions []int
			if ri >= 0 {
				regions = []int{ri}
			}
			if err != nil {
				w.fail("C05", "decode-error", "valid stream rejected", fmt.Sprintf("%s of %s output (%d bytes): %v", rEntryNames[re], wEntryNames[we], len(data), err))
				if st.A[3] == 1 && st.S[0] != st.S[1] {
					w.panicked = true // the receiver is in an unspecified state: rebuild it
					w.out(st.S[0])
				}
				return
			}
			if p >= 0 && p != int64(len(data)) {
				w.fail("C05", "byte-accounting", "decoder reports a different byte count", fmt.Sprintf("%s returned %d, stream has %d bytes", rEntryNames[re], p, len(data)))
			}
			if pulled >= 0 && pulled != len(data) {
				w.fail("C05", "over-read", "reader consumed bytes beyond the stream", fmt.Sprintf("ReadFrom pulled %d bytes from the io.Reader, stream has %d", pulled, len(data)))
			}
			w.setResult(st.S[0], dst, src.M.Clone(), regions, "decoded:"+rEntryNames[re])
			o := w.B[st.S[0]]
			o.ZeroCopy = re == 1 || re == 2
		}})

	// ------------------------------------------------------------ writer faults (C05)
	reg(&opDef{name: "wfault", tag: "C05",
		gen: func(w *World, r *Rng) (Step, bool) {
			return Step{S: []int{w.nonEmptySlot(r)}, A: []uint64{r.U64()}}, true
		},
		valid: func(w *World, st *Step) bool { return slotsOK(w, st, 1, 1) },
		exec: func(w *World, st *Step) {
			src := w.B[st.S[0]]
			var data []byte
			var err error
			if w.try("C05", func() { data, err = src.BM.ToBytes() }) || err != nil {
				return
			}
			offs := faultOffsets(data, st.A[0], 4096)
			if len(offs) == len(data) {
				w.probe("writer-offsets-exhaustive")
			}
			// recovery: after the failed writes another bitmap must still serialize to the bytes it
			// serialized to before them (whatever the failed calls left in pooled or cached buffers)
			other := -1
			var obefore []byte
			for off := 1; off < len(w.B); off++ {
				if j := (st.S[0] + off) % len(w.B); !w.B[j].M.IsEmpty() && !w.giant(j) {
					other = j
					break
				}
			}
			if other >= 0 {
				w.try("C05", func() { obefore, _ = w.B[other].BM.ToBytes() })
			}
			defer func() {
				if other < 0 || obefore == nil || w.panicked {
					return
				}
				var oafter []byte
				var oerr error
				if w.try("C05", func() { oafter, oerr = w.B[other].BM.ToBytes() }) {
					return
				}
				if oerr != nil || !bytes.Equal(obefore, oafter) {
					w.fail("C05", "write-after-fault", "a successful write after failed writes differs from the same write before them", fmt.Sprintf("slot %d serialized to %d bytes before the failed writes of slot %d and to %d bytes (err=%v) after them; first difference at byte %d", other, len(obefore), st.S[0], len(oafter), oerr, firstDiffByte(obefore, oafter)))
				}
			}()
			for _, k := range offs {
				for mode := simio.WShort; mode < simio.WNumModes; mode++ {
					fw := &simio.FaultyWriter{Mode: mode, At: k}
					var werr error
					if w.try("C05", func() { _, werr = src.BM.WriteTo(fw) }) {
						return
					}
					if !fw.Fired {
						continue
					}
					w.St.Faults["writer-"+simio.WModeNames[mode]]++
					if werr == nil {
						w.fail("C05", "writer-fault-swallowed", "WriteTo returned nil although the writer failed", fmt.Sprintf("writer failed (%s) at byte %d of %d (%s region), WriteTo returned nil", simio.WModeNames[mode], k, len(data), regionName(data, k)))
						w.disk("WriteTo", simio.WModeNames[mode], regionName(data, k), "swallowed")
						return
					}
					w.disk("WriteTo", simio.WModeNames[mode], regionName(data, k), "error")
				}
			}
		}})

	// ------------------------------------------------------------ truncation (C10)
	reg(&opDef{name: "trunc", tag: "C10",
		gen: func(w *World, r *Rng) (Step, bool) {
			return Step{S: []int{w.slot(r)}, A: []uint64{uint64(r.Intn(5)), r.U64()}}, true
		},
		valid: func(w *World, st *Step) bool { return slotsOK(w, st, 1, 2) && st.A[0] < 5 },
		exec: func(w *World, st *Step) {
			src := w.B[st.S[0]]
			e := int(st.A[0])
			var data []byte
			var err error
			if w.try("C05", func() { data, err = src.BM.ToBytes() }) || err != nil {
				return
			}
			offs := faultOffsets(data, st.A[1], 8192)
			if len(offs) == len(data) {
				w.probe("truncation-exhaustive")
			}
			var scratchReg *simio.Region
			if e == 1 || e == 2 {
				scratchReg, _ = simio.NewRegion(data, "portable-prefix", "C10", 1)
				defer scratchReg.Free()
				w.Regs = append(w.Regs, scratchReg)
				defer func() { w.Regs = w.Regs[:len(w.Regs)-1] }()
			}
			for _, k := range offs {
				prefix := data[:k]
				dst := roaring.New()
				var derr error
				pan := w.try("C10", func() {
					switch e {
					case 0:
						rd := &simio.ChunkedReader{Data: prefix, Sizes: chunkSizes(st.A[1] + uint64(k)), ErrAt: -1}
						_, derr = dst.ReadFrom(rd)
					case 1, 2:
						// two ways of handing over k bytes: flush against the guard page (an over-read
						// faults), or as the first k bytes of a longer readable buffer whose spare
						// capacity still holds the rest of the stream (an over-read "succeeds")
						buf := scratchReg.Place(prefix)
						if (st.A[1]>>8)&1 == 1 {
							buf = scratchReg.Place(data)[:k]
							w.probe("prefix-with-spare-capacity")
						}
						if e == 1 {
							_, derr = dst.FromBuffer(buf)
						} else {
							_, derr = dst.FromUnsafeBytes(buf)
						}
					case 3:
						derr = dst.UnmarshalBinary(prefix)
					default:
						txt := base64.StdEncoding.EncodeToString(prefix)
						if (st.A[1]>>10)&1 == 1 {
							txt = wrapBase64(txt, st.A[1]>>11)
						}
						_, derr = dst.FromBase64(txt)
					}
				})
				w.St.Faults["truncated-stream"]++
				if pan {
					w.disk(rEntryNames[e], "truncate", regionName(data, k), "panic")
					return
				}
				if derr == nil {
					w.fail("C10", "prefix-accepted", "proper prefix of a valid stream decoded without error", fmt.Sprintf("%s accepted the first %d of %d bytes (cut in %s)", rEntryNames[e], k, len(data), regionName(data, k)))
					w.disk(rEntryNames[e], "truncate", regionName(data, k), "accepted")
					return
				}
				w.disk(rEntryNames[e], "truncate", regionName(data, k), "error")
			}
		}})

	// ------------------------------------------------------------ reader error mid-stream (C10)
	reg(&opDef{name: "rfault", tag: "C10",
		gen: func(w *World, r *Rng) (Step, bool) {
			return Step{S: []int{w.nonEmptySlot(r)}, A: []uint64{r.U64()}}, true
		},
		valid: func(w *World, st *Step) bool { return slotsOK(w, st, 1, 1) },
		exec: func(w *World, st *Step) {
			src := w.B[st.S[0]]
			var data []byte
			var err error
			if w.try("C05", func() { data, err = src.BM.ToBytes() }) || err != nil {
				return
			}
			for _, k := range faultOffsets(data, st.A[0], 2048) {
				dst := roaring.New()
				rd := &simio.ChunkedReader{Data: data, Sizes: chunkSizes(st.A[0] ^ uint64(k)), ErrAt: k}
				var derr error
				if w.try("C10", func() { _, derr = dst.ReadFrom(rd) }) {
					return
				}
				w.St.Faults["reader-error"]++
				if derr == nil {
					w.fail("C10", "reader-error-swallowed", "ReadFrom returned nil although the reader failed before the end of the stream", fmt.Sprintf("reader failed at byte %d of %d, ReadFrom returned nil", k, len(data)))
					return
				}
			}
		}})

	// ------------------------------------------------------------ corruption (C10)
	reg(&opDef{name: "corrupt", tag: "C10",
		gen: func(w *World, r *Rng) (Step, bool) {
			if w.regionsLive() >= maxRegions {
				return Step{}, false
			}
			return Step{S: []int{w.slot(r), w.nonEmptySlot(r)}, A: []uint64{uint64(r.Intn(6)), uint64(r.Intn(numCorruptKinds)), r.U64()}}, true
		},
		valid: func(w *World, st *Step) bool {
			return slotsOK(w, st, 2, 3) && st.A[0] < 6 && st.S[0] != st.S[1] && w.regionsLive() < maxRegions+2
		},
		exec: execCorrupt})

	// ------------------------------------------------------------ MustReadFrom contract (C10)
	reg(&opDef{name: "mustread", tag: "C10",
		gen: func(w *World, r *Rng) (Step, bool) {
			return Step{S: []int{w.slot(r), w.nonEmptySlot(r)}, A: []uint64{r.U64(), uint64(r.Intn(3))}}, true
		},
		valid: func(w *World, st *Step) bool { return slotsOK(w, st, 2, 2) && st.S[0] != st.S[1] },
		exec: func(w *World, st *Step) {
			src := w.B[st.S[1]]
			var data []byte
			var err error
			if w.try("C05", func() { data, err = src.BM.ToBytes() }) || err != nil {
				return
			}
			mode := st.A[1]
			in := data
			if mode == 1 && len(data) > 0 { // truncated: expect ReadFrom's error back
				in = data[:int(st.A[0]%uint64(len(data)))]
			}
			// both argument forms: the whole stream, or the cookie already consumed by the caller
			var hdr []byte
			if st.A[0]>>21&1 == 1 && len(in) >= 4 {
				hdr, in = in[:4], in[4:]
				w.probe("mustreadfrom-with-cookie-header")
			}
			ref := roaring.New()
			var rn int64
			var rerr error
			if w.try("C10", func() {
				rn, rerr = ref.ReadFrom(&simio.ChunkedReader{Data: in, Sizes: chunkSizes(st.A[0]), ErrAt: -1}, hdr...)
			}) {
				return
			}
			dst := roaring.New()
			var mn int64
			var merr error
			var pv interface{}
			func() {
				defer func() { pv = recover() }()
				mn, merr = dst.MustReadFrom(&simio.ChunkedReader{Data: in, Sizes: chunkSizes(st.A[0]), ErrAt: -1}, hdr...)
			}()
			if pv != nil {
				if rerr == nil {
					// a valid library-written stream must validate
					w.fail("C10", "mustread", "MustReadFrom panicked on a valid stream", fmt.Sprintf("MustReadFrom panicked with %v on a stream the library wrote", pv))
				} else if _, isErr := pv.(error); !isErr {
					w.fail("C10", "mustread", "MustReadFrom panicked with a non-error value", fmt.Sprintf("MustReadFrom panic: %v", pv))
				}
				return
			}
			if mn != rn || (merr == nil) != (rerr == nil) {
				tag := "C10"
				if rerr == nil && mode != 1 {
					tag = "C10+C05" // a complete stream the library wrote, rejected by one entry point
				}
				w.fail(tag, "mustread", "MustReadFrom does not return ReadFrom's count and error", fmt.Sprintf("ReadFrom -> (%d, %v); MustReadFrom -> (%d, %v) on the same %d bytes", rn, rerr, mn, merr, len(in)))
				return
			}
			if rerr == nil {
				w.setResult(st.S[0], dst, src.M.Clone(), nil, "decoded:MustReadFrom")
			}
		}})

	// ------------------------------------------------------------ frozen format (C13)
	reg(&opDef{name: "freeze", tag: "C13",
		gen: func(w *World, r *Rng) (Step, bool) {
			if w.regionsLive() >= maxRegions {
				return Step{}, false
			}
			src := w.slot(r)
			if r.Chance(5, 6) {
				src = w.nonEmptySlot(r)
			}
			return Step{S: []int{w.slot(r), src}, A: []uint64{r.U64()}}, true
		},
		valid: func(w *World, st *Step) bool {
			return slotsOK(w, st, 2, 1) && w.regionsLive() < maxRegions+2
		},
		exec: execFreeze})

	// ------------------------------------------------------------ discard a buffer (C08)
	reg(&opDef{name: "unmap", tag: "C08",
		gen: func(w *World, r *Rng) (Step, bool) {
			var live []int
			for i, reg := range w.Regs {
				if reg != nil && reg.State() == 1 {
					live = append(live, i)
				}
			}
			if len(live) == 0 {
				return Step{}, false
			}
			return Step{A: []uint64{uint64(live[r.Intn(len(live))]), r.U64()}}, true
		},
		valid: func(w *World, st *Step) bool {
			return len(st.A) >= 2 && int(st.A[0]) < len(w.Regs) && w.Regs[st.A[0]] != nil && w.Regs[st.A[0]].State() == 1
		},
		exec: func(w *World, st *Step) {
			ri := int(st.A[0])
			mask := st.A[1]
			for i, o := range w.B {
				uses := false
				for _, x := range o.Regions {
					if x == ri {
						uses = true
					}
				}
				if !uses {
					continue
				}
				if mask>>uint(i)&1 == 1 || mask>>60&1 == 1 {
					// detach: after this the buffer may go away
					w.out(i)
					if !w.try("C08", func() { o.BM.CloneCopyOnWriteContainers() }) {
						o.Detached = true
						var keep []int
						for _, x := range o.Regions {
							if x != ri {
								keep = append(keep, x)
							}
						}
						// CloneCopyOnWriteContainers detaches from every buffer
						o.Regions = nil
						_ = keep
						w.probe("detached-before-unmap")
					}
				} else {
					// the dependant dies with the buffer: never touched again
					w.rebuild(i)
					w.probe("dependant-dropped-at-unmap")
				}
			}
			for i, o := range w.X.B64 {
				uses := false
				for _, x := range o.Regions {
					if x == ri {
						uses = true
					}
				}
				if !uses {
					continue
				}
				if mask>>uint(8+i)&1 == 1 || mask>>60&1 == 1 {
					w.out64(i)
					if !w.try("C08", func() { o.BM.CloneCopyOnWriteContainers() }) {
						o.Regions = nil
						w.probe("detached64-before-unmap")
					}
				} else {
					w.rebuild64(i)
					w.probe("dependant64-dropped-at-unmap")
				}
			}
			w.X.dropRegion(ri)
			w.Regs[ri].Unmap()
			w.St.Faults["region-unmapped"]++
		}})

	// ------------------------------------------------------------ dense conversion (C16)
	// DenseSize alone is cheap for any bitmap, also one whose dense form would be 512 MiB
	reg(&opDef{name: "densesize", tag: "C16",
		gen: func(w *World, r *Rng) (Step, bool) {
			// prefer the slot with the largest maximum
			best, bm := w.slot(r), uint32(0)
			if r.Bool() {
				for i, o := range w.B {
					if mx, ok := o.M.Max(); ok && mx >= bm {
						best, bm = i, mx
					}
				}
			}
			return Step{S: []int{best}}, true
		},
		valid: func(w *World, st *Step) bool { return slotsOK(w, st, 1, 0) },
		exec: func(w *World, st *Step) {
			o := w.B[st.S[0]]
			var want uint64
			if mx, ok := o.M.Max(); ok {
				want = (uint64(mx) + 64) / 64
				if mx == 0xFFFFFFFF {
					w.probe("densesize-with-maximum-2^32-1")
				}
			}
			var got uint64
			if w.try("C16", func() { got = o.BM.DenseSize() }) {
				return
			}
			if got != want {
				w.fail("C16", "dense", "DenseSize is not the number of words of the plain bit vector", fmt.Sprintf("DenseSize()=%d, the bit vector up to the maximum %d has %d words", got, func() uint32 { m, _ := o.M.Max(); return m }(), want))
			}
		}})
	reg(&opDef{name: "dense", tag: "C16",
		gen: func(w *World, r *Rng) (Step, bool) {
			if w.regionsLive() >= maxRegions {
				return Step{}, false
			}
			var cands []int
			for i, o := range w.B {
				if mx, ok := o.M.Max(); !ok || mx < 1<<25 {
					cands = append(cands, i)
				}
			}
			if len(cands) == 0 {
				return Step{}, false
			}
			return Step{S: []int{w.slot(r), cands[r.Intn(len(cands))]}, A: []uint64{uint64(r.Intn(5)), uint64(r.Intn(40)), r.U64()}}, true
		},
		valid: func(w *World, st *Step) bool {
			if !slotsOK(w, st, 2, 3) || w.regionsLive() >= maxRegions+2 {
				return false
			}
			mx, ok := w.B[st.S[1]].M.Max()
			return !ok || mx < 1<<25
		},
		exec: execDense})
}

// regionName tells in which structural part of a portable stream offset k lies.
func regionName(data []byte, k int) string {
	if len(data) < 8 {
		return "header"
	}
	cookie := uint32(data[0]) | uint32(data[1])<<8 | uint32(data[2])<<16 | uint32(data[3])<<24
	var n, pos int
	if cookie&0xFFFF == 12347 {
		n = int(cookie>>16) + 1
		pos = 4 + (n+7)/8
		if k < 4 {
			return "cookie"
		}
		if k < pos {
			return "runflags"
		}
	} else {
		n = int(uint32(data[4]) | uint32(data[5])<<8 | uint32(data[6])<<16 | uint32(data[7])<<24)
		pos = 8
		if k < 4 {
			return "cookie"
		}
		if k < 8 {
			return "size"
		}
	}
	if k < pos+4*n {
		return "keycards"
	}
	pos += 4 * n
	if cookie&0xFFFF != 12347 || n >= 4 {
		if k < pos+4*n {
			return "offsets"
		}
	}
	return "payload"
}

// faultOffsets: every offset when the stream is small, else the whole header,
// the payload boundaries +-2 and a seeded sample.
func faultOffsets(data []byte, seed uint64, exhaustiveBelow int) []int {
	n := len(data)
	if n <= exhaustiveBelow {
		out := make([]int, n)
		for i := range out {
			out[i] = i
		}
		return out
	}
	set := map[int]bool{}
	add := func(k int) {
		if k >= 0 && k < n {
			set[k] = true
		}
	}
	hdr := 0
	for hdr < n && hdr < 1536 && regionName(data, hdr) != "payload" {
		add(hdr)
		hdr++
	}
	if s, _, err := model.Decode32(data); err == nil {
		_, fields := s.Encode()
		for _, f := range fields {
			for d := -2; d <= 2; d++ {
				add(f.Start + d)
				add(f.End + d)
			}
		}
	}
	r := NewRng(seed)
	for i := 0; i < 200; i++ {
		add(r.Intn(n))
	}
	add(n - 1)
	out := make([]int, 0, len(set))
	for k := range set {
		out = append(out, k)
	}
	sort.Ints(out)
	lim := 1500
	if n > 256<<10 {
		lim = 60 // megabyte streams: every attempt costs a full write or decode
	}
	if len(out) > lim {
		// thin deterministically
		step := len(out)/lim + 1
		var t []int
		for i := 0; i < len(out); i += step {
			t = append(t, out[i])
		}
		out = t
	}
	return out
}

func execFreeze(w *World, st *Step) {
	src := w.B[st.S[1]]
	r := NewRng(st.A[0])
	var b1 []byte
	var e1 error
	var sz uint64
	if w.try("C13", func() { b1, e1 = src.BM.Freeze(); sz = src.BM.GetFrozenSizeInBytes() }) {
		return
	}
	if e1 != nil {
		w.fail("C13", "freeze-error", "Freeze failed on a library-made bitmap", fmt.Sprintf("Freeze: %v", e1))
		return
	}
	if uint64(len(b1)) != sz {
		w.fail("C13", "size", "Freeze length differs from GetFrozenSizeInBytes", fmt.Sprintf("len(Freeze)=%d GetFrozenSizeInBytes=%d", len(b1), sz))
	}
	// FreezeTo into exactly-sized and larger buffers
	extra := []int{0, 1, 7, 64}[r.Intn(4)]
	// the destination is the caller's: any start address, not only an 8-aligned one
	off := []int{0, 0, 1, 3, 4, 7}[r.Intn(6)]
	if off != 0 {
		w.probe("freezeto-unaligned-destination")
	}
	buf := make([]byte, int(sz)+extra+8)[off : off+int(sz)+extra]
	for i := range buf {
		buf[i] = 0xA5
	}
	var n2 int
	var e2 error
	if w.try("C13", func() { n2, e2 = src.BM.FreezeTo(buf) }) {
		return
	}
	if e2 != nil || n2 != int(sz) || !bytes.Equal(buf[:min(int(sz), len(buf))], b1) {
		w.fail("C13", "writers-disagree", "FreezeTo differs from Freeze", fmt.Sprintf("FreezeTo(len %d): n=%d err=%v equal=%v", len(buf), n2, e2, bytes.Equal(buf[:min(int(sz), len(buf))], b1)))
	}
	for i := int(sz); i < len(buf); i++ {
		if buf[i] != 0xA5 {
			w.fail("C13", "writers-disagree", "FreezeTo wrote beyond the frozen size", fmt.Sprintf("byte %d beyond size %d modified", i, sz))
			break
		}
	}
	// streaming writer
	fw := &simio.FaultyWriter{}
	var n3 int
	var e3 error
	if w.try("C13", func() { n3, e3 = src.BM.WriteFrozenTo(fw) }) {
		return
	}
	if e3 != nil || n3 != int(sz) || !bytes.Equal(fw.Data, b1) {
		w.fail("C13", "writers-disagree", "WriteFrozenTo differs from Freeze", fmt.Sprintf("WriteFrozenTo: n=%d err=%v len=%d want %d equal=%v", n3, e3, len(fw.Data), sz, bytes.Equal(fw.Data, b1)))
	}
	// too-small destinations: enumerated
	var sizes []int
	if sz <= 1024 {
		for k := 0; k < int(sz); k++ {
			sizes = append(sizes, k)
		}
		w.probe("freezeto-sizes-exhaustive")
	} else {
		sizes = []int{0, 1, 3, 4, int(sz) - 1, int(sz) - 2, int(sz) - 4, int(sz) - 5, int(sz) / 2}
		for i := 0; i < 40; i++ {
			sizes = append(sizes, r.Intn(int(sz)))
		}
	}
	for _, k := range sizes {
		if k < 0 || k >= int(sz) {
			continue
		}
		small := buf[:k]
		for i := range small {
			small[i] = 0x5A
		}
		var n int
		var err error
		if w.try("C13", func() { n, err = src.BM.FreezeTo(small) }) {
			return
		}
		w.St.Faults["freezeto-buffer-too-small"]++
		dirty := false
		for i := range small {
			if small[i] != 0x5A {
				dirty = true
			}
		}
		if err == nil || dirty {
			w.fail("C13", "small-buffer", "FreezeTo into a too-small buffer did not fail cleanly", fmt.Sprintf("buffer %d < size %d: n=%d err=%v buffer-modified=%v", k, sz, n, err, dirty))
			break
		}
	}
	// independent reading of the layout
	if set, _, perr := model.ParseFrozen(b1); perr != nil || !set.Equal(src.M) {
		w.fail("C13", "layout", "bytes do not follow the frozen layout", fmt.Sprintf("independent parse: err=%v equal=%v", perr, perr == nil && set.Equal(src.M)))
	}
	kinds := map[int]bool{}
	func() {
		defer func() { recover() }()
		for _, c := range src.BM.VerifChunks() {
			kinds[c.Kind] = true
		}
	}()
	if len(kinds) == 3 {
		w.probe("freeze-all-three-kinds")
	}
	// view over a read-only mapping
	dst := roaring.New()
	if r.Chance(1, 3) && st.S[0] != st.S[1] {
		dst = w.B[st.S[0]].BM
		w.probe("frozenview-into-used-receiver")
	}
	var verr error
	var ri int
	if w.try("C13", func() { _, verr, ri, _ = w.decode(dst, b1, 5, r.U64(), "C08") }) {
		w.out(st.S[0])
		return
	}
	if verr != nil {
		w.fail("C13", "view-error", "FrozenView rejects bytes the library froze", fmt.Sprintf("FrozenView/MustFrozenView: %v", verr))
		return
	}
	w.setResult(st.S[0], dst, src.M.Clone(), []int{ri}, "frozenview")
	scribble(b1) // what Freeze returned is the caller's (the view is over a copy in a mapped region)
	o := w.B[st.S[0]]
	o.ZeroCopy, o.Frozen = true, true
	var ve error
	w.try("C13", func() { ve = dst.Validate() })
	if ve != nil {
		w.fail("C13", "view-invalid", "frozen view of library bytes does not validate", ve.Error())
	}
}

func execDense(w *World, st *Step) {
	src := w.B[st.S[1]]
	mode := int(st.A[0])
	extra := int(st.A[1])
	// what the dense form must be
	wantWords := func() []uint64 {
		mx, ok := src.M.Max()
		if !ok {
			return nil
		}
		out := make([]uint64, (uint64(mx)+1+63)/64)
		src.M.Each(func(x uint32) bool { out[x>>6] |= 1 << (x & 63); return true })
		return out
	}
	wordsEq := func(a, b []uint64) bool {
		if len(a) != len(b) {
			return false
		}
		for i := range a {
			if a[i] != b[i] {
				return false
			}
		}
		return true
	}
	switch mode {
	case 0, 1, 2:
		var d []uint64
		if w.try("C16", func() {
			if mode == 2 {
				d = make([]uint64, int(src.BM.DenseSize())+extra)
				src.BM.WriteDenseTo(d)
			} else {
				d = src.BM.ToDense()
			}
		}) {
			return
		}
		want := wantWords()
		if mode == 2 {
			for _, x := range d[min(len(want), len(d)):] {
				if x != 0 {
					w.fail("C16", "dense", "WriteDenseTo wrote beyond DenseSize", "non-zero word beyond DenseSize")
					break
				}
			}
			d = d[:min(len(want), len(d))]
		}
		if !wordsEq(d, want) {
			w.fail("C16", "dense", "dense bit-vector differs from contents", fmt.Sprintf("ToDense/WriteDenseTo: %d words, want %d", len(d), len(want)))
			d = want
		}
		var res *roaring.Bitmap
		var regions []int
		zero := false
		if mode == 1 && len(d) > 0 {
			// no-copy import over a read-only mapping
			raw := make([]byte, 8*len(d))
			for i, x := range d {
				for b := 0; b < 8; b++ {
					raw[8*i+b] = byte(x >> (8 * uint(b)))
				}
			}
			ri, reg := w.addRegion(raw, "dense", "C16", 8)
			regions = []int{ri}
			zero = true
			w.try("C16", func() { res = roaring.FromDense(reg.Words(), false) })
			w.probe("fromdense-nocopy-over-region")
		} else {
			keep := append([]uint64(nil), d...)
			w.try("C16", func() {
				if mode == 2 {
					res = roaring.New()
					res.FromDense(d, true)
				} else {
					res = roaring.FromDense(d, extra%2 == 0)
					if extra%2 != 0 {
						zero = true // heap words are shared with the bitmap: keep d alive and unchanged
					}
				}
			})
			if !wordsEq(keep, d) {
				w.fail("C16", "dense", "FromDense modified the caller's words", "word slice changed during FromDense")
			}
		}
		w.setResult(st.S[0], res, src.M.Clone(), regions, "fromdense")
		w.B[st.S[0]].ZeroCopy = zero
	case 3:
		var res *roaring.Bitmap
		w.try("C16", func() { res = roaring.FromBitSet(src.BM.ToBitSet()) })
		w.setResult(st.S[0], res, src.M.Clone(), nil, "frombitset")
	default:
		// arbitrary word slice: length not a multiple of 1024, varying density
		r := NewRng(st.A[2])
		n := []int{1, 2, 63, 1023, 1024, 1025, 2048, 2500, 3000 + extra}[r.Intn(9)]
		d := make([]uint64, n)
		m := model.NewSet32()
		dens := r.Intn(4)
		for i := range d {
			switch dens {
			case 0:
				if r.Chance(1, 20) {
					d[i] = 1 << uint(r.Intn(64))
				}
			case 1:
				d[i] = r.U64()
			case 2:
				d[i] = r.U64() & r.U64() & r.U64()
			default:
				if (i/1024)%2 == 0 {
					d[i] = r.U64() | r.U64()
				}
			}
			for b := 0; b < 64; b++ {
				if d[i]&(1<<uint(b)) != 0 {
					m.Add(uint32(i*64 + b))
				}
			}
		}
		raw := make([]byte, 8*n)
		for i, x := range d {
			for b := 0; b < 8; b++ {
				raw[8*i+b] = byte(x >> (8 * uint(b)))
			}
		}
		noCopy := r.Bool()
		var res *roaring.Bitmap
		var regions []int
		if noCopy {
			// sometimes the words are a prefix of a longer caller-owned buffer: the spare
			// capacity behind them is the caller's too and must not be written either
			spare := 0
			if r.Chance(1, 2) {
				spare = 8 * (1 + r.Intn(1500))
				for i := 0; i < spare; i++ {
					raw = append(raw, byte(r.U64()|1))
				}
				w.probe("fromdense-words-with-spare-capacity")
			}
			ri, reg := w.addRegion(raw, "dense", "C16", 8)
			regions = []int{ri}
			words := reg.Words()[:n]
			w.try("C16", func() { res = roaring.FromDense(words, false) })
			w.probe("fromdense-nocopy-over-region")
		} else {
			w.try("C16", func() { res = roaring.FromDense(d, true) })
		}
		if n%1024 != 0 {
			w.probe("fromdense-partial-last-chunk")
		}
		w.setResult(st.S[0], res, m, regions, "fromdense")
		w.B[st.S[0]].ZeroCopy = noCopy
	}
}
