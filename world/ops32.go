package world

import (
	"fmt"

	"github.com/RoaringBitmap/roaring/v2"

	"verif/model"
)

type opDef struct {
	selfSched bool // the op drives the scheduler itself (several simulated executions per step)
	name      string
	tag       string // property whose statement entails this op's own postcondition
	gen       func(w *World, r *Rng) (Step, bool)
	valid     func(w *World, st *Step) bool
	exec      func(w *World, st *Step)
}

var opTable = map[string]*opDef{}

func reg(d *opDef) {
	if d.valid == nil {
		d.valid = func(w *World, st *Step) bool { return true }
	}
	opTable[d.name] = d
}

// slotsOK checks that the step names n existing 32-bit slots and at least na args.
func slotsOK(w *World, st *Step, n, na int) bool {
	if len(st.S) < n || len(st.A) < na {
		return false
	}
	for _, s := range st.S {
		if s < 0 || s >= len(w.B) {
			return false
		}
	}
	return true
}

func unionRegions(a, b []int) []int {
	out := append([]int(nil), a...)
	for _, x := range b {
		found := false
		for _, y := range out {
			if x == y {
				found = true
			}
		}
		if !found {
			out = append(out, x)
		}
	}
	return out
}

// liveRegions keeps only the regions that are still mapped.
func (w *World) liveRegions(rs []int) []int {
	var out []int
	for _, i := range rs {
		if i < len(w.Regs) && w.Regs[i] != nil && w.Regs[i].State() != 2 {
			out = append(out, i)
		}
	}
	return out
}

// setResult installs a freshly returned bitmap in slot dst.
func (w *World) setResult(dst int, bm *roaring.Bitmap, m *model.Set32, regions []int, prov string) {
	if bm == nil {
		if !w.panicked {
			w.fail(w.curTag, "nil-result", "operation returned nil", fmt.Sprintf("%s returned a nil bitmap", w.curOp))
		}
		bm = buildFromModel(m)
	}
	w.B[dst] = &Obj32{BM: bm, M: m, Regions: w.liveRegions(regions), Prov: prov}
	w.X.dropCursorsOf(dst)
	w.out(dst)
}

var binNames = []string{"and", "or", "xor", "andnot"}

func modelBin(op int, a, b *model.Set32) *model.Set32 {
	switch op {
	case 0:
		return model.And32(a, b)
	case 1:
		return model.Or32(a, b)
	case 2:
		return model.Xor32(a, b)
	}
	return model.AndNot32(a, b)
}

func init() {
	// ---------------------------------------------------------------- point mutation
	reg(&opDef{name: "add", tag: "C02",
		gen: func(w *World, r *Rng) (Step, bool) {
			b := w.slot(r)
			return Step{S: []int{b}, A: []uint64{uint64(w.value(r, b)), uint64(r.Intn(3))}}, true
		},
		valid: func(w *World, st *Step) bool { return slotsOK(w, st, 1, 2) },
		exec: func(w *World, st *Step) {
			o := w.B[st.S[0]]
			x := uint32(st.A[0])
			want := o.M.Add(x)
			w.out(st.S[0])
			w.X.dropCursorsOf(st.S[0])
			w.try("C02", func() {
				switch st.A[1] {
				case 0:
					o.BM.Add(x)
				case 1:
					if got := o.BM.CheckedAdd(x); got != want {
						w.fail("C02", "checked-result", "CheckedAdd boolean wrong", fmt.Sprintf("CheckedAdd(%d) = %v, membership changed = %v", x, got, want))
					}
				default:
					o.BM.AddInt(int(x))
				}
			})
		}})
	reg(&opDef{name: "remove", tag: "C02",
		gen: func(w *World, r *Rng) (Step, bool) {
			b := w.nonEmptySlot(r)
			return Step{S: []int{b}, A: []uint64{uint64(w.value(r, b)), uint64(r.Intn(2))}}, true
		},
		valid: func(w *World, st *Step) bool { return slotsOK(w, st, 1, 2) },
		exec: func(w *World, st *Step) {
			o := w.B[st.S[0]]
			x := uint32(st.A[0])
			want := o.M.Remove(x)
			w.out(st.S[0])
			w.X.dropCursorsOf(st.S[0])
			w.try("C02", func() {
				if st.A[1] == 0 {
					o.BM.Remove(x)
				} else if got := o.BM.CheckedRemove(x); got != want {
					w.fail("C02", "checked-result", "CheckedRemove boolean wrong", fmt.Sprintf("CheckedRemove(%d) = %v, membership changed = %v", x, got, want))
				}
			})
		}})
	reg(&opDef{name: "addmany", tag: "C02",
		gen: func(w *World, r *Rng) (Step, bool) {
			shape := r.Intn(numShapes)
			if shape == 7 && !r.Chance(1, 4) {
				shape = 0 // many-chunk bitmaps make every later step of the history slow: keep them rare
			}
			return Step{S: []int{w.slot(r)}, A: []uint64{uint64(w.key(r)), uint64(shape), uint64(count(r)), r.U64()}}, true
		},
		valid: func(w *World, st *Step) bool { return slotsOK(w, st, 1, 4) },
		exec: func(w *World, st *Step) {
			o := w.B[st.S[0]]
			vals := Vals(uint16(st.A[0]), int(st.A[1]), int(st.A[2]), st.A[3])
			for _, v := range vals {
				o.M.Add(v)
			}
			w.out(st.S[0])
			w.X.dropCursorsOf(st.S[0])
			keep := append([]uint32(nil), vals...)
			w.try("C02", func() { o.BM.AddMany(vals) })
			for i := range keep {
				if keep[i] != vals[i] {
					w.fail("C07", "argument-modified", "AddMany changed the caller's slice", "AddMany modified its argument slice")
					break
				}
			}
		}})
	// ---------------------------------------------------------------- range mutation
	rangeOp := func(name string, real func(bm *roaring.Bitmap, s, e uint64), mod func(m *model.Set32, s, e uint64)) {
		reg(&opDef{name: name, tag: "C02",
			gen: func(w *World, r *Rng) (Step, bool) {
				s, e := w.rangeArgs(r)
				b := w.slot(r)
				if name == "removerange" {
					b = w.nonEmptySlot(r)
				}
				return Step{S: []int{b}, A: []uint64{s, e}}, true
			},
			valid: func(w *World, st *Step) bool {
				return slotsOK(w, st, 1, 2) && st.A[0] <= 1<<32 && st.A[1] <= 1<<32
			},
			exec: func(w *World, st *Step) {
				o := w.B[st.S[0]]
				mod(o.M, st.A[0], st.A[1])
				w.out(st.S[0])
				w.X.dropCursorsOf(st.S[0])
				w.try("C02", func() { real(o.BM, st.A[0], st.A[1]) })
				if st.A[1] == 1<<32 {
					w.probe("range-ends-at-2^32")
				}
				if st.A[1]&0xFFFF == 0 {
					w.probe("range-ends-on-chunk-edge")
				}
			}})
	}
	rangeOp("addrange", func(bm *roaring.Bitmap, s, e uint64) { bm.AddRange(s, e) }, func(m *model.Set32, s, e uint64) { m.AddRange(s, e) })
	rangeOp("removerange", func(bm *roaring.Bitmap, s, e uint64) { bm.RemoveRange(s, e) }, func(m *model.Set32, s, e uint64) { m.RemoveRange(s, e) })
	rangeOp("flip", func(bm *roaring.Bitmap, s, e uint64) { bm.Flip(s, e) }, func(m *model.Set32, s, e uint64) { m.FlipRange(s, e) })

	reg(&opDef{name: "clear", tag: "C02",
		gen:   func(w *World, r *Rng) (Step, bool) { return Step{S: []int{w.slot(r)}}, true },
		valid: func(w *World, st *Step) bool { return slotsOK(w, st, 1, 0) },
		exec: func(w *World, st *Step) {
			o := w.B[st.S[0]]
			o.M.Clear()
			o.Regions = nil
			w.out(st.S[0])
			w.X.dropCursorsOf(st.S[0])
			w.try("C02", func() { o.BM.Clear() })
		}})
	// ---------------------------------------------------------------- content-neutral maintenance
	reg(&opDef{name: "runopt", tag: "C02",
		gen:   func(w *World, r *Rng) (Step, bool) { return Step{S: []int{w.nonEmptySlot(r)}}, true },
		valid: func(w *World, st *Step) bool { return slotsOK(w, st, 1, 0) },
		exec: func(w *World, st *Step) {
			o := w.B[st.S[0]]
			w.out(st.S[0])
			w.X.dropCursorsOf(st.S[0])
			w.try("C02", func() { o.BM.RunOptimize() })
		}})
	reg(&opDef{name: "clone", tag: "C02",
		gen: func(w *World, r *Rng) (Step, bool) {
			return Step{S: []int{w.emptyishSlot(r), w.nonEmptySlot(r)}}, true
		},
		valid: func(w *World, st *Step) bool { return slotsOK(w, st, 2, 0) && st.S[0] != st.S[1] },
		exec: func(w *World, st *Step) {
			src := w.B[st.S[1]]
			var c *roaring.Bitmap
			w.try("C02", func() { c = src.BM.Clone() })
			w.setResult(st.S[0], c, src.M.Clone(), src.Regions, "clone")
		}})
	reg(&opDef{name: "detach", tag: "C02",
		gen:   func(w *World, r *Rng) (Step, bool) { return Step{S: []int{w.nonEmptySlot(r)}}, true },
		valid: func(w *World, st *Step) bool { return slotsOK(w, st, 1, 0) },
		exec: func(w *World, st *Step) {
			o := w.B[st.S[0]]
			w.out(st.S[0])
			w.X.dropCursorsOf(st.S[0])
			if !w.try("C02", func() { o.BM.CloneCopyOnWriteContainers() }) {
				o.Regions = nil
				o.Detached = true
			}
		}})
	reg(&opDef{name: "setcow", tag: "C02",
		gen: func(w *World, r *Rng) (Step, bool) {
			return Step{S: []int{w.slot(r)}, A: []uint64{uint64(r.Intn(4)/3 ^ 1)}}, true // mostly on
		},
		valid: func(w *World, st *Step) bool {
			return slotsOK(w, st, 1, 1) && !w.B[st.S[0]].ZeroCopy
		},
		exec: func(w *World, st *Step) {
			o := w.B[st.S[0]]
			w.out(st.S[0])
			w.try("C02", func() { o.BM.SetCopyOnWrite(st.A[0] == 1) })
		}})
	// ---------------------------------------------------------------- binary algebra
	reg(&opDef{name: "binop", tag: "C01",
		gen: func(w *World, r *Rng) (Step, bool) {
			a, b := w.nonEmptySlot(r), w.nonEmptySlot(r)
			return Step{S: []int{w.emptyishSlot(r), a, b}, A: []uint64{uint64(r.Intn(4))}}, true
		},
		valid: func(w *World, st *Step) bool { return slotsOK(w, st, 3, 1) && st.A[0] < 4 },
		exec: func(w *World, st *Step) {
			a, b := w.B[st.S[1]], w.B[st.S[2]]
			op := int(st.A[0])
			w.pairing(binNames[op], a.BM, b.BM)
			if st.S[1] == st.S[2] {
				w.probe("binop-self")
			}
			var res *roaring.Bitmap
			w.try("C01", func() {
				switch op {
				case 0:
					res = roaring.And(a.BM, b.BM)
				case 1:
					res = roaring.Or(a.BM, b.BM)
				case 2:
					res = roaring.Xor(a.BM, b.BM)
				default:
					res = roaring.AndNot(a.BM, b.BM)
				}
			})
			w.setResult(st.S[0], res, modelBin(op, a.M, b.M), unionRegions(a.Regions, b.Regions), binNames[op])
		}})
	reg(&opDef{name: "ibinop", tag: "C01",
		gen: func(w *World, r *Rng) (Step, bool) {
			a, b := w.nonEmptySlot(r), w.nonEmptySlot(r)
			if r.Chance(1, 12) {
				b = a
			}
			return Step{S: []int{a, b}, A: []uint64{uint64(r.Intn(4))}}, true
		},
		valid: func(w *World, st *Step) bool { return slotsOK(w, st, 2, 1) && st.A[0] < 4 },
		exec: func(w *World, st *Step) {
			a, b := w.B[st.S[0]], w.B[st.S[1]]
			op := int(st.A[0])
			w.pairing("i"+binNames[op], a.BM, b.BM)
			if st.S[0] == st.S[1] {
				w.probe("ibinop-self")
			}
			nm := modelBin(op, a.M, b.M)
			a.Regions = unionRegions(a.Regions, b.Regions)
			w.out(st.S[0])
			w.X.dropCursorsOf(st.S[0])
			w.try("C01", func() {
				switch op {
				case 0:
					a.BM.And(b.BM)
				case 1:
					a.BM.Or(b.BM)
				case 2:
					a.BM.Xor(b.BM)
				default:
					a.BM.AndNot(b.BM)
				}
			})
			a.M = nm
		}})
	reg(&opDef{name: "card", tag: "C01",
		gen: func(w *World, r *Rng) (Step, bool) {
			a, b := w.nonEmptySlot(r), w.nonEmptySlot(r)
			return Step{S: []int{a, b}, A: []uint64{uint64(r.Intn(3))}}, true
		},
		valid: func(w *World, st *Step) bool { return slotsOK(w, st, 2, 1) },
		exec: func(w *World, st *Step) {
			a, b := w.B[st.S[0]], w.B[st.S[1]]
			w.pairing("card", a.BM, b.BM)
			w.try("C01", func() {
				switch st.A[0] {
				case 0:
					if got, want := a.BM.AndCardinality(b.BM), model.And32(a.M, b.M).Card(); got != want {
						w.fail("C01", "shortcut", "AndCardinality wrong", fmt.Sprintf("AndCardinality=%d want %d", got, want))
					}
				case 1:
					if got, want := a.BM.OrCardinality(b.BM), model.Or32(a.M, b.M).Card(); got != want {
						w.fail("C01", "shortcut", "OrCardinality wrong", fmt.Sprintf("OrCardinality=%d want %d", got, want))
					}
				default:
					if got, want := a.BM.Intersects(b.BM), !model.And32(a.M, b.M).IsEmpty(); got != want {
						w.fail("C01", "shortcut", "Intersects wrong", fmt.Sprintf("Intersects=%v want %v", got, want))
					}
				}
			})
		}})
	// ---------------------------------------------------------------- transforms (C16)
	reg(&opDef{name: "flipstatic", tag: "C16",
		gen: func(w *World, r *Rng) (Step, bool) {
			s, e := w.rangeArgs(r)
			return Step{S: []int{w.emptyishSlot(r), w.slot(r)}, A: []uint64{s, e}}, true
		},
		valid: func(w *World, st *Step) bool {
			return slotsOK(w, st, 2, 2) && st.A[1] <= 1<<32 && (st.A[0] >= st.A[1] || st.A[0] < 1<<32)
		},
		exec: func(w *World, st *Step) {
			src := w.B[st.S[1]]
			nm := src.M.Clone()
			nm.FlipRange(st.A[0], st.A[1])
			var res *roaring.Bitmap
			w.try("C16", func() { res = roaring.Flip(src.BM, st.A[0], st.A[1]) })
			w.setResult(st.S[0], res, nm, src.Regions, "flipstatic")
		}})
	reg(&opDef{name: "addoffset", tag: "C16",
		gen: func(w *World, r *Rng) (Step, bool) {
			var d int64
			src := w.nonEmptySlot(r)
			switch r.Intn(10) {
			case 8, 9:
				// align an extreme value of one of the source's chunks with a chunk edge: the
				// split of that chunk then has a half that is empty, or holds a single value
				if ks := w.B[src].M.Keys(); len(ks) > 0 && !w.giant(src) {
					k := ks[r.Intn(len(ks))]
					var lo, hi uint32
					first := true
					w.B[src].M.EachInChunk(k, func(x uint32) bool {
						if first {
							lo, first = x&0xFFFF, false
						}
						hi = x & 0xFFFF
						return true
					})
					target := int64([]int{65535, 65536, 65534, 0}[r.Intn(4)])
					ext := int64(hi)
					if r.Chance(1, 3) {
						ext = int64(lo)
					}
					d = target - ext + int64(r.Intn(3)-1)*65536
				}
			case 0:
				d = int64(r.Intn(5)-2) * 65536
			case 1:
				d = int64(r.Intn(131072)) - 65536
			case 2:
				d = int64(lowPool[r.Intn(len(lowPool))])
			case 3:
				d = -int64(lowPool[r.Intn(len(lowPool))])
			case 4:
				d = int64(r.U64n(1<<33)) - 1<<32
			case 5: // push the maximum across 2^32
				if mx, ok := w.B[0].M.Max(); ok {
					d = 1<<32 - int64(mx) - int64(r.Intn(3))
				}
			case 6:
				d = int64(uint64(w.key(r))<<16|uint64(low(r))) - int64(uint64(w.key(r))<<16)
			default:
				d = int64(r.Intn(1<<20)) - 1<<19
			}
			if d <= -(1<<32) || d >= 1<<32 {
				d = 0
			}
			variant := uint64(0)
			if d >= 0 && r.Chance(1, 4) {
				variant = 1
			}
			return Step{S: []int{w.emptyishSlot(r), src}, A: []uint64{uint64(d), variant}}, true
		},
		valid: func(w *World, st *Step) bool {
			if !slotsOK(w, st, 2, 2) {
				return false
			}
			d := int64(st.A[0])
			return d > -(1<<32) && d < 1<<32 && (st.A[1] == 0 || d >= 0) && !w.giant(st.S[1])
		},
		exec: func(w *World, st *Step) {
			src := w.B[st.S[1]]
			d := int64(st.A[0])
			if d&0xFFFF != 0 {
				w.probe("addoffset-unaligned")
			}
			nm := src.M.Shift(d)
			var res *roaring.Bitmap
			w.try("C16", func() {
				if st.A[1] == 1 {
					res = roaring.AddOffset(src.BM, uint32(d))
				} else {
					res = roaring.AddOffset64(src.BM, d)
				}
			})
			w.setResult(st.S[0], res, nm, src.Regions, "addoffset")
		}})
	// ---------------------------------------------------------------- many-way aggregates (C11)
	reg(&opDef{name: "agg", tag: "C11",
		gen: func(w *World, r *Rng) (Step, bool) {
			n := r.Intn(7)
			if r.Chance(1, 10) {
				n = 0
			}
			s := []int{w.emptyishSlot(r)}
			for i := 0; i < n; i++ {
				if r.Chance(1, 6) && len(s) > 1 {
					s = append(s, s[1+r.Intn(len(s)-1)]) // duplicate member
				} else {
					s = append(s, w.slot(r))
				}
			}
			workers := []uint64{0, 1, 2, 3, 4, 5, 9}[r.Intn(7)]
			return Step{S: s, A: []uint64{uint64(r.Intn(7)), workers}}, true
		},
		valid: func(w *World, st *Step) bool { return slotsOK(w, st, 1, 2) && st.A[0] < 7 },
		exec:  execAgg})
	reg(&opDef{name: "andany", tag: "C11",
		gen: func(w *World, r *Rng) (Step, bool) {
			n := 1 + r.Intn(5)
			s := []int{w.nonEmptySlot(r)}
			for i := 0; i < n; i++ {
				s = append(s, w.slot(r))
			}
			return Step{S: s}, true
		},
		valid: func(w *World, st *Step) bool { return slotsOK(w, st, 2, 0) },
		exec: func(w *World, st *Step) {
			x := w.B[st.S[0]]
			u := model.NewSet32()
			var list []*roaring.Bitmap
			for _, s := range st.S[1:] {
				u = model.Or32(u, w.B[s].M)
				list = append(list, w.B[s].BM)
				x.Regions = unionRegions(x.Regions, w.B[s].Regions)
			}
			keep := append([]*roaring.Bitmap(nil), list...)
			nm := model.And32(x.M, u)
			w.out(st.S[0])
			w.X.dropCursorsOf(st.S[0])
			w.try("C11", func() { x.BM.AndAny(list...) })
			x.M = nm
			for i := range keep {
				if keep[i] != list[i] {
					w.fail("C07", "argument-modified", "AndAny changed the caller's slice", "AndAny modified its argument slice")
					break
				}
			}
		}})
	reg(&opDef{name: "gc", tag: "C02",
		gen:  func(w *World, r *Rng) (Step, bool) { return Step{}, true },
		exec: func(w *World, st *Step) { w.gc() }})
}

var aggNames = []string{"FastOr", "FastAnd", "HeapOr", "HeapXor", "ParOr", "ParAnd", "ParHeapOr"}

func execAgg(w *World, st *Step) {
	which := int(st.A[0])
	workers := int(st.A[1])
	members := st.S[1:]
	var list []*roaring.Bitmap
	var regions []int
	var nm *model.Set32
	for i, s := range members {
		o := w.B[s]
		list = append(list, o.BM)
		regions = unionRegions(regions, o.Regions)
		switch {
		case i == 0:
			nm = o.M.Clone()
		case which == 1 || which == 5:
			nm = model.And32(nm, o.M)
		case which == 3:
			nm = model.Xor32(nm, o.M)
		default:
			nm = model.Or32(nm, o.M)
		}
	}
	if nm == nil {
		nm = model.NewSet32()
	}
	w.probe(fmt.Sprintf("agg-%s-n%d", aggNames[which], len(members)))
	keep := append([]*roaring.Bitmap(nil), list...)
	var res *roaring.Bitmap
	w.try("C11", func() {
		switch which {
		case 0:
			res = roaring.FastOr(list...)
		case 1:
			res = roaring.FastAnd(list...)
		case 2:
			res = roaring.HeapOr(list...)
		case 3:
			res = roaring.HeapXor(list...)
		case 4:
			res = roaring.ParOr(workers, list...)
		case 5:
			res = roaring.ParAnd(workers, list...)
		default:
			res = roaring.ParHeapOr(workers, list...)
		}
	})
	for i := range keep {
		if keep[i] != list[i] {
			w.fail("C07", "argument-modified", aggNames[which]+" changed the caller's slice", fmt.Sprintf("%s modified the caller's []*Bitmap (element %d)", aggNames[which], i))
			break
		}
	}
	w.curOp = "agg:" + aggNames[which]
	w.setResult(st.S[0], res, nm, regions, aggNames[which])
}
