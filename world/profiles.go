package world

type profile struct {
	names   []string
	weights []int
}

func mkProfile(m map[string]int) *profile {
	p := &profile{}
	// deterministic order
	keys := make([]string, 0, len(m))
	for k := range m {
		keys = append(keys, k)
	}
	sortStrings(keys)
	for _, k := range keys {
		if opTable[k] == nil {
			panic("profile names unknown op " + k)
		}
		p.names = append(p.names, k)
		p.weights = append(p.weights, m[k])
	}
	return p
}

func sortStrings(a []string) {
	for i := 1; i < len(a); i++ {
		for j := i; j > 0 && a[j] < a[j-1]; j-- {
			a[j], a[j-1] = a[j-1], a[j]
		}
	}
}

var profiles = map[string]*profile{}

func init() {
	base := map[string]int{
		"add": 6, "remove": 5, "addmany": 10, "addrange": 8, "removerange": 6, "flip": 5, "clear": 1,
		"runopt": 4, "clone": 4, "detach": 1, "setcow": 3,
		"binop": 6, "ibinop": 6, "card": 2, "flipstatic": 2, "addoffset": 2, "agg": 3, "andany": 1, "gc": 1,
		"thresh": 4, "pair": 3, "cowclone": 2, "parlist": 0, "erode": 1, "zcpair": 0, "wide": 1, "tinysubset": 1, "gap": 3, "reuse": 0, "reuse64": 0, "capflip": 1, "par64": 0, "offedge": 1, "offedge2": 0, "offedge3": 0, "magic64": 0, "cow64": 0, "shrinkcow": 1, "breakeven": 2, "runedge": 1, "allkeys": 0,
	}
	with := func(over map[string]int) *profile {
		m := map[string]int{}
		for k, v := range base {
			m[k] = v
		}
		for k, v := range over {
			m[k] = v
		}
		return mkProfile(m)
	}
	io := map[string]int{"rt": 0, "wfault": 0, "trunc": 0, "rfault": 0, "corrupt": 0, "mustread": 0, "freeze": 0, "unmap": 0, "dense": 0, "densesize": 0, "cur-open": 0, "cur-step": 0, "iterfn": 0}
	for k, v := range io {
		base[k] = v
	}
	for _, k := range []string{"add64", "remove64", "addmany64", "addrange64", "removerange64", "flip64", "maint64", "binop64", "flipstatic64", "agg64", "query64", "from32", "rt64", "trunc64", "wfault64", "corrupt64"} {
		base[k] = 0
	}
	for _, k := range []string{"bsinew64", "bsiset64", "bsifill64", "bsisetmany64", "bsiclear64", "bsiretain64", "bsiparor64", "bsiinc64", "bsiadd64", "bsicopy64", "bsiopt64", "bsicmp64", "bsicmpbsi64", "bsibatch64", "bsiminmax64", "bsisum64", "bsitrans64",
		"bsinew32", "bsiset32", "bsifill32", "bsisetmany32", "bsiclear32", "bsiparor32", "bsiinc32", "bsiadd32", "bsicopy32", "bsiopt32", "bsicmp32", "bsibatch32", "bsiminmax32", "bsisum32", "bsitrans32", "bsiscan32"} {
		base[k] = 0
	}
	profiles["default"] = with(nil)
	only := func(m map[string]int) *profile {
		all := map[string]int{}
		for k := range base {
			all[k] = 0
		}
		for k, v := range m {
			all[k] = v
		}
		return mkProfile(all)
	}
	profiles["C12"] = only(map[string]int{"parcmp": 40, "pooldecode": 12, "agg": 6, "agg64": 4, "addmany": 12, "addrange": 8, "runopt": 4, "removerange": 3, "flip": 3, "clone": 3, "setcow": 3, "addmany64": 6, "addrange64": 4, "binop": 3, "pair": 3, "gc": 1, "cowclone": 6, "add": 3, "remove": 2, "parlist": 8, "par64": 8,
		// the goroutine-parallel paths of both BSI implementations (races, deadlocks, leaks and panics in
		// their goroutines are C12's; wrong answers are C19/C20's and counted as foreign here)
		"bsinew64": 2, "bsifill64": 6, "bsiset64": 3, "bsiclear64": 3, "bsiparor64": 3, "bsicopy64": 3, "bsicmp64": 6, "bsibatch64": 3, "bsiminmax64": 3, "bsisum64": 3, "bsitrans64": 3,
		"bsinew32": 2, "bsifill32": 6, "bsiset32": 3, "bsiclear32": 3, "bsiparor32": 3, "bsicopy32": 3, "bsicmp32": 6, "bsibatch32": 3, "bsiminmax32": 3, "bsisum32": 3, "bsitrans32": 3})
	profiles["C17"] = only(map[string]int{"cow64": 4, "add64": 10, "remove64": 9, "addmany64": 10, "addrange64": 10, "removerange64": 10, "flip64": 8, "maint64": 8, "binop64": 16, "flipstatic64": 6, "agg64": 6, "query64": 8, "from32": 1, "addmany": 1, "gc": 1})
	profiles["C18"] = only(map[string]int{"reuse64": 8, "magic64": 1, "add64": 6, "remove64": 4, "addmany64": 10, "addrange64": 8, "removerange64": 6, "flip64": 4, "maint64": 6, "binop64": 6, "rt64": 25, "trunc64": 6, "wfault64": 5, "corrupt64": 20})
	profiles["C19"] = only(map[string]int{"bsinew64": 4, "bsiset64": 14, "bsifill64": 12, "bsisetmany64": 8, "bsiclear64": 6, "bsiretain64": 4, "bsiparor64": 8, "bsiinc64": 6, "bsiadd64": 6, "bsicopy64": 14, "bsiopt64": 2,
		"bsinew32": 4, "bsiset32": 12, "bsifill32": 10, "bsisetmany32": 7, "bsiclear32": 6, "bsiparor32": 8, "bsiinc32": 6, "bsiadd32": 6, "bsicopy32": 10, "bsiopt32": 2, "bsicmp64": 2, "bsicmp32": 2, "bsisum64": 1, "bsisum32": 1})
	profiles["C20"] = only(map[string]int{"bsinew64": 3, "bsiset64": 8, "bsifill64": 12, "bsisetmany64": 6, "bsiclear64": 2, "bsiparor64": 1, "bsiinc64": 2, "bsicopy64": 2, "bsiopt64": 2,
		"bsinew32": 3, "bsiset32": 8, "bsifill32": 12, "bsisetmany32": 6, "bsiclear32": 2, "bsiparor32": 1, "bsiinc32": 2, "bsicopy32": 2, "bsiopt32": 2,
		"bsicmp64": 22, "bsicmpbsi64": 6, "bsibatch64": 12, "bsiminmax64": 7, "bsisum64": 5, "bsitrans64": 8,
		"bsicmp32": 18, "bsibatch32": 9, "bsiminmax32": 7, "bsisum32": 4, "bsitrans32": 7, "bsiscan32": 1})
	profiles["C04"] = with(map[string]int{"cur-open": 14, "cur-step": 45, "iterfn": 14, "runopt": 6, "binop": 2, "ibinop": 2, "agg": 0, "andany": 0, "flipstatic": 0, "addoffset": 0})
	profiles["C05"] = with(map[string]int{"reuse": 8, "wide": 3, "rt": 30, "wfault": 8, "mustread": 3, "runopt": 8, "agg": 1, "unmap": 2})
	profiles["C10"] = with(map[string]int{"reuse": 2, "trunc": 10, "corrupt": 45, "rfault": 4, "mustread": 5, "rt": 3, "runopt": 8, "unmap": 1})
	profiles["C13"] = with(map[string]int{"allkeys": 1, "wide": 4, "freeze": 30, "detach": 8, "add": 6, "addmany": 6, "runopt": 8, "unmap": 3, "gc": 6})
	profiles["C08"] = with(map[string]int{"rt": 14, "freeze": 10, "unmap": 8, "detach": 6, "gc": 5, "dense": 3, "clone": 8, "binop": 10, "ibinop": 10, "agg": 5, "setcow": 1,
		"zcpair": 8, "pair": 2, "thresh": 2,
		"rt64": 4, "addmany64": 3, "add64": 3, "remove64": 2, "addrange64": 2, "removerange64": 2, "flip64": 1, "binop64": 4, "maint64": 2})
	profiles["C01"] = with(map[string]int{"binop": 20, "ibinop": 20, "card": 8, "runopt": 6, "pair": 16})
	profiles["C02"] = with(map[string]int{"shrinkcow": 3, "runedge": 4, "add": 12, "remove": 10, "addmany": 14, "addrange": 14, "removerange": 12, "flip": 10, "binop": 2, "ibinop": 2, "agg": 1, "thresh": 10, "clone": 6, "setcow": 5})
	profiles["C07"] = with(map[string]int{"cow64": 6, "shrinkcow": 3, "add64": 4, "remove64": 3, "addmany64": 5, "addrange64": 4, "removerange64": 3, "flip64": 2, "maint64": 10, "binop64": 14, "flipstatic64": 3, "agg64": 5, "from32": 1,
		"parlist": 3, "cowclone": 8, "clone": 8, "setcow": 8, "binop": 10, "ibinop": 10, "agg": 10, "flipstatic": 4, "addoffset": 4, "andany": 3})
	profiles["C09"] = with(map[string]int{"capflip": 5, "parlist": 6, "offedge": 6, "breakeven": 10, "runedge": 6, "allkeys": 1, "gap": 10, "tinysubset": 5, "erode": 4, "thresh": 8, "pair": 12, "runopt": 8, "agg": 8, "andany": 5, "addoffset": 6, "flipstatic": 5, "removerange": 10, "flip": 8})
	profiles["C14"] = profiles["C09"]
	profiles["C11"] = with(map[string]int{"tinysubset": 6, "agg": 25, "andany": 8, "runopt": 5, "parlist": 6, "cowclone": 4})
	profiles["C16"] = with(map[string]int{"flipstatic": 15, "addoffset": 20, "offedge": 4, "densesize": 6, "runopt": 6, "dense": 14, "unmap": 2})
}
