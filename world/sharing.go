package world

import (
	"fmt"
	"sort"

	"github.com/RoaringBitmap/roaring/v2"
)

type chunkRef struct {
	slot, idx int
	c         roaring.VerifChunk
}

var kindNames = map[int]string{0: "bitmap", 1: "array", 2: "run", -1: "nil"}

// sharingScan looks for chunks (or backing arrays) reachable from two live
// bitmaps, or living in a caller-owned region, whose owner is not flagged
// copy-on-write, and then decides behaviourally: it writes through the
// unflagged owner and looks at the other one. Only an observed interference
// is reported (C07), or a fault inside a region (C08/C16, via try).
func (w *World) sharingScan() {
	w.selfProbes = 0
	var refs []chunkRef
	for i, o := range w.B {
		func() {
			defer func() { recover() }()
			for j, c := range o.BM.VerifChunks() {
				if c.Kind >= 0 && c.DataPtr != 0 {
					refs = append(refs, chunkRef{i, j, c})
				}
			}
		}()
	}
	// same *Bitmap object in two slots
	for i := range w.B {
		for j := i + 1; j < len(w.B); j++ {
			if w.B[i].BM == w.B[j].BM {
				w.fail("C07", "aliasing", "operation returned one of its inputs", fmt.Sprintf("slots %d and %d hold the same *Bitmap after %s: mutating one mutates the other", i, j, w.curOp))
				w.rebuild(j)
				w.rebuild(i)
				return
			}
		}
	}
	sort.Slice(refs, func(a, b int) bool { return refs[a].c.DataPtr < refs[b].c.DataPtr })
	for a := 0; a < len(refs); a++ {
		ra := refs[a]
		// live data decides sharing between bitmaps; the spare capacity matters only for the
		// chunk that follows immediately in memory (arena-backed views make every capacity
		// reach to the end of the arena: scanning by capacity would be quadratic)
		endA := ra.c.DataPtr + uintptr(ra.c.Len*ra.c.ElemSize)
		if a+1 < len(refs) && refs[a+1].slot == ra.slot && refs[a+1].c.ContainerPtr != ra.c.ContainerPtr &&
			refs[a+1].c.DataPtr >= endA && refs[a+1].c.DataPtr < ra.c.DataPtr+uintptr(ra.c.Cap*ra.c.ElemSize) {
			if w.selfOverlapProbe(ra, refs[a+1]) {
				return
			}
		}
		// region-backed and unflagged?
		if !ra.c.NeedCOW {
			for ri, reg := range w.Regs {
				if reg != nil && reg.State() == 1 && reg.OverlapsPayload(ra.c.DataPtr, ra.c.Len*ra.c.ElemSize) {
					w.probe("region-backed-unflagged-chunk")
					if w.probeWrite(ra.slot, ra.c.Key, -1, reg.Prop) {
						_ = ri
						return
					}
				}
			}
		}
		// (a wide result may hold one container under thousands of keys: the pairs looked at per
		// chunk are bounded, chunks of one slot over the very same data are looked at once)
		if a > 0 && refs[a-1].slot == ra.slot && refs[a-1].c.DataPtr == ra.c.DataPtr && refs[a-1].c.NeedCOW == ra.c.NeedCOW && refs[a-1].idx != ra.idx {
			continue
		}
		looked := 0
		seenSlot := map[int]int{}
		for b := a + 1; b < len(refs) && refs[b].c.DataPtr < endA && looked < 48; b++ {
			rb := refs[b]
			if ra.slot == rb.slot {
				// two chunks of one bitmap over the same live data: harmless only while both are
				// flagged (each is copied before its first write)
				if rb.idx != ra.idx && !(ra.c.NeedCOW && rb.c.NeedCOW) {
					looked++
					x, y := ra, rb
					if x.c.NeedCOW {
						x, y = rb, ra
					}
					if w.selfShareProbe(x, y) {
						return
					}
				}
				continue
			}
			if seenSlot[rb.slot] >= 3 {
				continue
			}
			seenSlot[rb.slot]++
			looked++
			w.probe("shared-backing-seen")
			if ra.c.NeedCOW && rb.c.NeedCOW {
				continue
			}
			key := [2]uintptr{ra.c.ContainerPtr, rb.c.ContainerPtr}
			if w.unconf[key] {
				continue
			}
			w.probe("shared-backing-unflagged")
			hit := false
			if !ra.c.NeedCOW {
				hit = w.probeWrite(ra.slot, ra.c.Key, rb.slot, w.interTag(ra.slot, rb.slot))
			}
			if !hit && !rb.c.NeedCOW {
				hit = w.probeWrite(rb.slot, rb.c.Key, ra.slot, w.interTag(ra.slot, rb.slot))
			}
			if hit {
				return // objects were rebuilt; pointers in refs are stale
			}
			if w.unconf == nil {
				w.unconf = map[[2]uintptr]bool{}
			}
			w.unconf[key] = true
			w.St.StructUnconf++
		}
	}
}

// selfShareProbe: chunks x and y of ONE bitmap lie over the same data and x is not flagged
// copy-on-write. Decided behaviourally: write through x, the bitmap must still equal its model.
func (w *World) selfShareProbe(x, y chunkRef) bool {
	if w.selfProbes >= 3 {
		return false
	}
	key := [2]uintptr{x.c.DataPtr, uintptr(x.slot)<<20 | uintptr(x.idx)}
	if w.unconf[key] {
		return false
	}
	w.selfProbes++
	w.probe("chunks-of-one-bitmap-share-data")
	o := w.B[x.slot]
	c := o.M.ChunkWords(x.c.Key)
	if c == nil {
		return false
	}
	present, absent := -1, -1
	for i := 0; i < 65536 && (present < 0 || absent < 0); i++ {
		if c[i>>6]&(1<<(uint(i)&63)) != 0 {
			if present < 0 {
				present = i
			}
		} else if absent < 0 {
			absent = i
		}
	}
	base := uint32(x.c.Key) << 16
	hit := false
	tag := w.provTag(x.slot, w.curTag+"+C02")
	pan := w.try(tag, func() {
		m2 := o.M.Clone()
		var undo func()
		if present >= 0 {
			v := base | uint32(present)
			o.BM.Remove(v)
			m2.Remove(v)
			undo = func() { o.BM.Add(v) }
		} else {
			v := base | uint32(absent)
			o.BM.Add(v)
			m2.Add(v)
			undo = func() { o.BM.Remove(v) }
		}
		if ok, d := eq32(o.BM, m2); !ok {
			hit = true
			w.fail(tag, "self-aliasing", "one container stored under two keys of a bitmap: a write through one key changed the other",
				fmt.Sprintf("after %s, chunks %#x (not flagged copy-on-write) and %#x of slot %d (%s) share their data; one write inside chunk %#x corrupted the bitmap: %s", w.curOp, x.c.Key, y.c.Key, x.slot, o.Prov, x.c.Key, d))
			return
		}
		undo()
	})
	if pan || hit {
		w.rebuild(x.slot)
		return true
	}
	if w.unconf == nil {
		w.unconf = map[[2]uintptr]bool{}
	}
	w.unconf[key] = true
	return false
}

// probeWrite writes through slot x inside chunk key and checks that slot y
// (if >= 0) still equals its model; restores x's contents afterwards.
// Returns true when interference (or a fault) was observed and repaired.
func (w *World) probeWrite(x int, key uint16, y int, tag string) bool {
	ox := w.B[x]
	base := uint32(key) << 16
	c := ox.M.ChunkWords(key)
	if c == nil {
		return false
	}
	var present, absent int = -1, -1
	for i := 0; i < 65536 && (present < 0 || absent < 0); i++ {
		if c[i>>6]&(1<<(uint(i)&63)) != 0 {
			if present < 0 {
				present = i
			}
		} else if absent < 0 {
			absent = i
		}
	}
	check := func(v uint32, what string) bool {
		if y < 0 {
			return false
		}
		oy := w.B[y]
		got := oy.BM.Contains(v)
		if got != oy.M.Contains(v) {
			w.fail(tag, "interference", "write through one bitmap visible in another",
				fmt.Sprintf("after %s, slots %d (%s) and %d (%s) share a chunk at key %#x not flagged copy-on-write in slot %d: %s(%d) on slot %d changed slot %d", w.curOp, x, ox.Prov, y, oy.Prov, key, x, what, v, x, y))
			return true
		}
		return false
	}
	hit := false
	before := len(w.Fails) + w.St.Foreign
	pan := w.try(tag, func() {
		if present >= 0 {
			v := base | uint32(present)
			ox.BM.Remove(v)
			hit = check(v, "Remove")
			ox.BM.Add(v)
		}
		if !hit && absent >= 0 {
			v := base | uint32(absent)
			ox.BM.Add(v)
			hit = check(v, "Add")
			ox.BM.Remove(v)
		}
	})
	if pan || hit || len(w.Fails)+w.St.Foreign != before {
		w.rebuild(x)
		if y >= 0 {
			w.rebuild(y)
		}
		return true
	}
	return false
}

// regionScan: every readable region must still hold the bytes it was given.
func (w *World) regionScan() {
	for i, reg := range w.Regs {
		if reg == nil {
			continue
		}
		if !reg.Intact() {
			w.fail(reg.Prop, "region-modified", "caller-owned buffer was written", fmt.Sprintf("region %d (%s) changed during %s", i, reg.Kind, w.curOp))
			reg.Resum()
		}
	}
}

// selfOverlapProbe: two chunks of ONE bitmap whose backing arrays overlap (the spare
// capacity of the first reaches into the data of the second). Decided behaviourally: grow
// the first chunk in place by a few values and see whether the bitmap still equals its model.
func (w *World) selfOverlapProbe(a, b chunkRef) bool {
	if a.c.Kind != 1 || a.c.ElemSize == 0 || a.c.NeedCOW {
		// only array chunks grow by appending within capacity, and a chunk flagged
		// copy-on-write is cloned before any write (e.g. the arrays of a frozen view, which
		// are consecutive slices of the caller's arena)
		return false
	}
	if w.selfProbes >= 3 {
		return false
	}
	w.selfProbes++
	w.probe("chunks-of-one-bitmap-overlap-in-memory")
	key := [2]uintptr{a.c.ContainerPtr, b.c.ContainerPtr}
	if w.unconf[key] {
		return false
	}
	o := w.B[a.slot]
	need := int(b.c.DataPtr-a.c.DataPtr)/a.c.ElemSize - a.c.Len + 1
	if need < 1 {
		need = 1
	}
	if need > 64 {
		return false
	}
	words := o.M.ChunkWords(a.c.Key)
	if words == nil {
		return false
	}
	// values above the chunk's maximum: they are appended
	var add []uint32
	for i := 65535; i >= 0 && len(add) < need; i-- {
		if words[i>>6]&(1<<(uint(i)&63)) != 0 {
			break
		}
		add = append(add, uint32(a.c.Key)<<16|uint32(i))
	}
	if len(add) < need {
		return false
	}
	m2 := o.M.Clone()
	hit := false
	stag := w.provTag(a.slot, w.curTag+"+C02")
	pan := w.try(stag, func() {
		for i := len(add) - 1; i >= 0; i-- {
			o.BM.Add(add[i])
			m2.Add(add[i])
		}
		if ok, d := eq32(o.BM, m2); !ok {
			hit = true
			w.fail(stag, "self-aliasing", "growing one chunk of a bitmap overwrote another chunk of the same bitmap",
				fmt.Sprintf("after %s, chunks %#x and %#x of slot %d (%s) overlap in memory; adding %d values to the first corrupted the bitmap: %s", w.curOp, a.c.Key, b.c.Key, a.slot, o.Prov, len(add), d))
		}
		for _, v := range add {
			o.BM.Remove(v)
		}
	})
	if pan || hit {
		w.rebuild(a.slot)
		return true
	}
	if w.unconf == nil {
		w.unconf = map[[2]uintptr]bool{}
	}
	w.unconf[key] = true
	return false
}
