package world

// Bit-sliced indexes (C19 updates and copies, C20 queries) for both
// implementations: roaring64.BSI and BitSliceIndexing.BSI. The model is a plain
// Go map column -> value; it shares no code with the library.

import (
	"fmt"
	"math/big"
	"sort"

	"github.com/RoaringBitmap/roaring/v2"
	bsi "github.com/RoaringBitmap/roaring/v2/BitSliceIndexing"
	"github.com/RoaringBitmap/roaring/v2/roaring64"

	"verif/simio"
)

const numBSI = 3

// ObjBSI64 is a roaring64.BSI with its model.
type ObjBSI64 struct {
	B        *roaring64.BSI
	M        map[uint64]*big.Int
	Fixed    bool
	Min, Max int64 // declared range when Fixed
	Prov     string
	NonNeg   bool // generation only: this index is fed non-negative values
	cols     []uint64
	colsOK   bool
}

// ObjBSI32 is a BitSliceIndexing.BSI with its model.
type ObjBSI32 struct {
	B        *bsi.BSI
	M        map[uint64]int64
	Fixed    bool
	Min, Max int64
	Prov     string
	NonNeg   bool
	cols     []uint64
	colsOK   bool
}

// ---------------------------------------------------------------- small helpers

var (
	bigZero   = big.NewInt(0)
	bigOne    = big.NewInt(1)
	bigMinI64 = big.NewInt(-1 << 63)
	bigMaxI64 = big.NewInt(1<<63 - 1)
)

// bigOf decodes a value recorded in a step as (negative, low 64, high 64).
func bigOf(neg, lo, hi uint64) *big.Int {
	v := new(big.Int).SetUint64(hi)
	v.Lsh(v, 64)
	v.Or(v, new(big.Int).SetUint64(lo))
	if neg&1 == 1 {
		v.Neg(v)
	}
	return v
}

func encBig(v *big.Int) []uint64 {
	a := new(big.Int).Abs(v)
	lo := new(big.Int).And(a, new(big.Int).SetUint64(^uint64(0))).Uint64()
	hi := new(big.Int).Rsh(a, 64)
	neg := uint64(0)
	if v.Sign() < 0 {
		neg = 1
	}
	return []uint64{neg, lo, hi.Uint64()}
}

func encodable(v *big.Int) bool { return v.BitLen() <= 128 }

func pow2(k int) *big.Int { return new(big.Int).Lsh(bigOne, uint(k)) }

// rndBig draws uniformly from [lo,hi].
func rndBig(r *Rng, lo, hi *big.Int) *big.Int {
	span := new(big.Int).Sub(hi, lo)
	span.Add(span, bigOne)
	if span.Sign() <= 0 {
		return new(big.Int).Set(lo)
	}
	x := new(big.Int).SetUint64(r.U64())
	x.Lsh(x, 64)
	x.Or(x, new(big.Int).SetUint64(r.U64()))
	x.Lsh(x, 64)
	x.Or(x, new(big.Int).SetUint64(r.U64()))
	x.Mod(x, span)
	return x.Add(x, lo)
}

func clampBig(v, lo, hi *big.Int) *big.Int {
	if v.Cmp(lo) < 0 {
		return new(big.Int).Set(lo)
	}
	if v.Cmp(hi) > 0 {
		return new(big.Int).Set(hi)
	}
	return v
}

func inBig(v, lo, hi *big.Int) bool { return v.Cmp(lo) >= 0 && v.Cmp(hi) <= 0 }

func sortedU64(a []uint64) []uint64 {
	sort.Slice(a, func(i, j int) bool { return a[i] < a[j] })
	out := a[:0]
	for i, v := range a {
		if i == 0 || v != a[i-1] {
			out = append(out, v)
		}
	}
	return out
}

func hasU64(sorted []uint64, v uint64) bool {
	i := sort.Search(len(sorted), func(i int) bool { return sorted[i] >= v })
	return i < len(sorted) && sorted[i] == v
}

func diffU64(got, want []uint64) string {
	i, j := 0, 0
	for i < len(got) && j < len(want) {
		switch {
		case got[i] == want[j]:
			i++
			j++
		case got[i] < want[j]:
			return fmt.Sprintf("extra column %d (%#x)", got[i], got[i])
		default:
			return fmt.Sprintf("missing column %d (%#x)", want[j], want[j])
		}
	}
	if i < len(got) {
		return fmt.Sprintf("extra column %d (%#x)", got[i], got[i])
	}
	if j < len(want) {
		return fmt.Sprintf("missing column %d (%#x)", want[j], want[j])
	}
	return ""
}

func mk64(cols []uint64) *roaring64.Bitmap {
	bm := roaring64.New()
	bm.AddMany(cols)
	return bm
}

func mk32(cols []uint64) *roaring.Bitmap {
	bm := roaring.New()
	for _, c := range cols {
		bm.Add(uint32(c))
	}
	return bm
}

func arr32(bm *roaring.Bitmap) []uint64 {
	a := bm.ToArray()
	out := make([]uint64, len(a))
	for i, v := range a {
		out[i] = uint64(v)
	}
	return out
}

// found-set argument kinds
const (
	fsNil = iota
	fsFresh
	fsCloneEBM
	fsLiveEBM
)

// fsArg describes the found-set handed to the library: its kind and the
// columns it denotes (for nil / existence bitmap: all model columns).
type fsArg struct {
	kind int
	cols []uint64
}

var fsKindNames = []string{"nil", "fresh bitmap", "clone of existence bitmap", "live existence bitmap"}

func (f fsArg) String() string {
	return fmt.Sprintf("found-set=%s(%d columns)", fsKindNames[f.kind], len(f.cols))
}

// colres is a bitmap returned by a query, seen through the public API.
type colres interface {
	isNil() bool
	arr() []uint64
	add(c uint64)
	remove(c uint64)
}

type res64 struct{ bm *roaring64.Bitmap }

func (r res64) isNil() bool     { return r.bm == nil }
func (r res64) arr() []uint64   { return r.bm.ToArray() }
func (r res64) add(c uint64)    { r.bm.Add(c) }
func (r res64) remove(c uint64) { r.bm.Remove(c) }

type res32 struct{ bm *roaring.Bitmap }

func (r res32) isNil() bool     { return r.bm == nil }
func (r res32) arr() []uint64   { return arr32(r.bm) }
func (r res32) add(c uint64)    { r.bm.Add(uint32(c)) }
func (r res32) remove(c uint64) { r.bm.Remove(uint32(c)) }

type bsiPair struct {
	col uint64
	val int64
}

// bsiH is what the family-independent operation code needs from an index and
// its model. Methods touching the real index may panic; callers wrap them.
type bsiH interface {
	is64() bool
	prov() string
	setProv(s string)
	desc() string
	// model
	mcols() []uint64
	mget(c uint64) (*big.Int, bool)
	mput(c uint64, v *big.Int)
	mdel(c uint64)
	mlen() int
	fixedRange() (bool, *big.Int, *big.Int)
	nonNeg() bool
	// real index: reads
	bitCount() int
	card() uint64
	exists(c uint64) bool
	getBig(c uint64) (*big.Int, bool)
	getI64(c uint64) (int64, bool)
	getValues(cols []uint64) ([]int64, []bool, bool)
	ebmArr() []uint64
	planeLeak() string
	// real index: updates
	setValue(c uint64, v *big.Int, viaBig bool)
	setMany(cols []uint64, v int64)
	clearValues(fs fsArg)
	retain(fs fsArg) uint64
	increment(variant int, fs fsArg)
	runOpt()
	parOr(par int, others []bsiH)
	add(other bsiH)
	copyBSI(method int, fs fsArg, seed uint64, recv bsiH) (bsiH, string, error)
	equals(other bsiH) (bool, bool)
	// queries
	compare(par, op int, c1, c2 *big.Int, viaBig bool, fs fsArg) (colres, string)
	compareBSI(op int, other bsiH, fs fsArg) (colres, string)
	batchEqual(par, api int, vals []*big.Int, fs fsArg) (colres, []bsiPair, string)
	minMax(par, op int, viaBig bool, fs fsArg) *big.Int
	sum(viaBig bool, fs fsArg) (*big.Int, uint64)
	transpose(api, par int, fs fsArg) (colres, string)
	transposeCounts(par int, fs fsArg, filter []uint64) bsiH
	rebuilt() bsiH
}

// ---------------------------------------------------------------- 64-bit family

func newObj64(fixed bool, max, min int64, nonneg bool, prov string) *ObjBSI64 {
	o := &ObjBSI64{M: map[uint64]*big.Int{}, Fixed: fixed, Min: min, Max: max, Prov: prov, NonNeg: nonneg}
	if fixed {
		o.B = roaring64.NewBSI(max, min)
	} else {
		o.B = roaring64.NewDefaultBSI()
	}
	return o
}

func (o *ObjBSI64) is64() bool       { return true }
func (o *ObjBSI64) prov() string     { return o.Prov }
func (o *ObjBSI64) setProv(s string) { o.Prov = s }
func (o *ObjBSI64) desc() string {
	bc := -99
	func() { defer func() { recover() }(); bc = o.B.BitCount() }()
	if o.Fixed {
		return fmt.Sprintf("roaring64.BSI NewBSI(max=%d,min=%d) BitCount=%d columns=%d (%s)", o.Max, o.Min, bc, len(o.M), o.Prov)
	}
	return fmt.Sprintf("roaring64.BSI auto-sized BitCount=%d columns=%d (%s)", bc, len(o.M), o.Prov)
}
func (o *ObjBSI64) mcols() []uint64 {
	if !o.colsOK {
		o.cols = o.cols[:0]
		for c := range o.M {
			o.cols = append(o.cols, c)
		}
		sort.Slice(o.cols, func(i, j int) bool { return o.cols[i] < o.cols[j] })
		o.colsOK = true
	}
	return o.cols
}
func (o *ObjBSI64) mget(c uint64) (*big.Int, bool) { v, ok := o.M[c]; return v, ok }
func (o *ObjBSI64) mput(c uint64, v *big.Int) {
	if _, ok := o.M[c]; !ok {
		o.colsOK = false
	}
	o.M[c] = new(big.Int).Set(v)
}
func (o *ObjBSI64) mdel(c uint64) {
	if _, ok := o.M[c]; ok {
		o.colsOK = false
		delete(o.M, c)
	}
}
func (o *ObjBSI64) mlen() int { return len(o.M) }
func (o *ObjBSI64) fixedRange() (bool, *big.Int, *big.Int) {
	return o.Fixed, big.NewInt(o.Min), big.NewInt(o.Max)
}
func (o *ObjBSI64) nonNeg() bool { return o.NonNeg || (o.Fixed && o.Min >= 0) }

func (o *ObjBSI64) bitCount() int        { return o.B.BitCount() }
func (o *ObjBSI64) card() uint64         { return o.B.GetCardinality() }
func (o *ObjBSI64) exists(c uint64) bool { return o.B.ValueExists(c) }
func (o *ObjBSI64) getBig(c uint64) (*big.Int, bool) {
	return o.B.GetBigValue(c)
}
func (o *ObjBSI64) getI64(c uint64) (int64, bool) { return o.B.GetValue(c) }
func (o *ObjBSI64) getValues(cols []uint64) ([]int64, []bool, bool) {
	v, e := o.B.GetValues(cols)
	return v, e, true
}
func (o *ObjBSI64) ebmArr() []uint64 { return o.B.GetExistenceBitmap().ToArray() }
func (o *ObjBSI64) planeLeak() string {
	ebm, planes := o.B.VerifPlanes()
	for i, p := range planes {
		if x := roaring64.AndNot(p, ebm); !x.IsEmpty() {
			return fmt.Sprintf("plane %d of %d holds column %d which is absent from the existence bitmap", i, len(planes), x.Minimum())
		}
	}
	return ""
}
func (o *ObjBSI64) fs(f fsArg) *roaring64.Bitmap {
	switch f.kind {
	case fsNil:
		return nil
	case fsCloneEBM:
		return o.B.GetExistenceBitmap().Clone()
	case fsLiveEBM:
		return o.B.GetExistenceBitmap()
	}
	return mk64(f.cols)
}
func (o *ObjBSI64) setValue(c uint64, v *big.Int, viaBig bool) {
	if viaBig {
		o.B.SetBigValue(c, new(big.Int).Set(v))
	} else {
		o.B.SetValue(c, v.Int64())
	}
}
func (o *ObjBSI64) setMany(cols []uint64, v int64) { o.B.SetMany(mk64(cols), v) }
func (o *ObjBSI64) clearValues(f fsArg)            { o.B.ClearValues(o.fs(f)) }
func (o *ObjBSI64) retain(f fsArg) uint64          { return o.B.Retain(o.fs(f)) }
func (o *ObjBSI64) increment(variant int, f fsArg) {
	switch variant {
	case 1:
		o.B.Increment(nil)
	case 2:
		o.B.IncrementAll()
	default:
		o.B.Increment(o.fs(f))
	}
}
func (o *ObjBSI64) runOpt() { o.B.RunOptimize() }
func (o *ObjBSI64) parOr(par int, others []bsiH) {
	var l []*roaring64.BSI
	for _, x := range others {
		l = append(l, x.(*ObjBSI64).B)
	}
	o.B.ParOr(par, l...)
}
func (o *ObjBSI64) add(other bsiH) { o.B.Add(other.(*ObjBSI64).B) }

var copyNames = []string{"Clone", "NewBSIRetainSet", "MarshalBinary-UnmarshalBinary", "WriteTo-ReadFrom"}

func (o *ObjBSI64) copyBSI(method int, f fsArg, seed uint64, recv bsiH) (bsiH, string, error) {
	n := &ObjBSI64{M: map[uint64]*big.Int{}, Prov: copyNames[method] + " of " + o.Prov, NonNeg: o.NonNeg}
	note := ""
	switch method {
	case 0:
		n.B = o.B.Clone()
	case 1:
		n.B = o.B.NewBSIRetainSet(o.fs(f))
	case 2:
		data, err := o.B.MarshalBinary()
		if err != nil {
			return nil, "MarshalBinary", err
		}
		if seed&2 == 0 && o.Fixed {
			n.B = roaring64.NewBSI(o.Max, o.Min)
			n.Fixed, n.Min, n.Max = true, o.Min, o.Max
			note = "receiver NewBSI(max,min) as the source"
		} else {
			n.B = roaring64.NewDefaultBSI()
			note = "receiver NewDefaultBSI()"
		}
		if err := n.B.UnmarshalBinary(data); err != nil {
			return nil, "UnmarshalBinary", err
		}
		// a copying entry point: the caller recycles its record buffers once the call has returned
		for _, d := range data {
			scribble(d)
		}
	default:
		fw := &simio.FaultyWriter{}
		wn, err := o.B.WriteTo(fw)
		if err != nil {
			return nil, "WriteTo", err
		}
		if wn != int64(len(fw.Data)) {
			note = fmt.Sprintf("WriteTo returned %d for %d bytes; ", wn, len(fw.Data))
		}
		rd := &simio.ChunkedReader{Data: fw.Data, Sizes: chunkSizes(seed), ErrAt: -1, EOFWith: seed&1 == 1}
		if seed&2 == 0 && o.Fixed {
			// a receiver created for the same range as the source: the history continues on it with
			// values of that range
			n.B = roaring64.NewBSI(o.Max, o.Min)
			n.Fixed, n.Min, n.Max = true, o.Min, o.Max
			note = "receiver NewBSI(max,min) as the source; "
		} else {
			n.B = roaring64.NewDefaultBSI()
			// reading back into an index that already held something else (auto-sized, possibly wider)
			if r64, ok := recv.(*ObjBSI64); ok && seed&4 != 0 && r64 != nil && r64.B != nil && !r64.Fixed {
				n.B = r64.B
				note = "previously used auto-sized receiver; "
			} else if bc := o.B.BitCount(); seed&8 != 0 && bc >= 1 && bc < 58 {
				// a receiver created for a wider range than anything the stream holds (the copy is
				// then used within the source's range only)
				wd := uint(bc + 1 + int(seed>>4&3))
				n.B = roaring64.NewBSI(int64(1)<<wd-1, -(int64(1) << wd))
				note = fmt.Sprintf("receiver NewBSI(2^%d-1, -2^%d), wider than the stream; ", wd, wd)
				// ReadFrom replaces the receiver's planes by the stream's: what comes out is a
				// fixed-width index (it no longer widens on its own) of the stream's width, and
				// that is the range the history may use from here on (see DESIGN section 10)
				// (NewBSI sizes an index by the bit lengths of its bounds: +-(2^bc - 1) is the
				// widest symmetric range that gets exactly the stream's bc+1 planes)
				n.Fixed, n.Min, n.Max = true, -(int64(1)<<uint(bc))+1, int64(1)<<uint(bc)-1
			}
		}
		p, err := n.B.ReadFrom(rd)
		if err != nil {
			return nil, "ReadFrom", err
		}
		note += fmt.Sprintf("stream %d bytes, ReadFrom returned %d", len(fw.Data), p)
		scribble(fw.Data)
	}
	keep := f.cols
	for c, v := range o.M {
		if method != 1 || hasU64(keep, c) {
			n.M[c] = new(big.Int).Set(v)
		}
	}
	return n, note, nil
}
func (o *ObjBSI64) equals(other bsiH) (bool, bool) {
	x := other.(*ObjBSI64)
	return o.B.Equals(x.B) && x.B.Equals(o.B), true
}
func (o *ObjBSI64) compare(par, op int, c1, c2 *big.Int, viaBig bool, f fsArg) (colres, string) {
	fs := o.fs(f)
	var keep []uint64
	if f.kind == fsFresh {
		keep = fs.ToArray()
	}
	var res *roaring64.Bitmap
	if viaBig {
		res = o.B.CompareBigValue(par, roaring64.Operation(op), new(big.Int).Set(c1), new(big.Int).Set(c2), fs)
	} else {
		res = o.B.CompareValue(par, roaring64.Operation(op), c1.Int64(), c2.Int64(), fs)
	}
	return res64{res}, fsChanged64(f, fs, keep)
}
func fsChanged64(f fsArg, fs *roaring64.Bitmap, keep []uint64) string {
	if f.kind != fsFresh {
		return ""
	}
	if d := diffU64(fs.ToArray(), keep); d != "" {
		return "the caller's found-set was modified: " + d
	}
	return ""
}
func (o *ObjBSI64) compareBSI(op int, other bsiH, f fsArg) (colres, string) {
	fs := o.fs(f)
	var keep []uint64
	if f.kind == fsFresh {
		keep = fs.ToArray()
	}
	res := o.B.CompareBSI(roaring64.Operation(op), other.(*ObjBSI64).B, fs)
	return res64{res}, fsChanged64(f, fs, keep)
}
func (o *ObjBSI64) batchEqual(par, api int, vals []*big.Int, f fsArg) (colres, []bsiPair, string) {
	switch api {
	case 1:
		l := make([]*big.Int, len(vals))
		for i, v := range vals {
			l[i] = new(big.Int).Set(v)
		}
		return res64{o.B.BatchEqualBig(par, l)}, nil, ""
	case 2:
		l := make([]int64, len(vals))
		for i, v := range vals {
			l[i] = v.Int64()
		}
		fs := o.fs(f)
		var keep []uint64
		if f.kind == fsFresh {
			keep = fs.ToArray()
		}
		ps := o.B.BatchEqualValues(par, l, fs)
		out := make([]bsiPair, len(ps))
		for i, p := range ps {
			out[i] = bsiPair{p.ColumnID, p.Value}
		}
		return nil, out, fsChanged64(f, fs, keep)
	}
	l := make([]int64, len(vals))
	for i, v := range vals {
		l[i] = v.Int64()
	}
	return res64{o.B.BatchEqual(par, l)}, nil, ""
}
func (o *ObjBSI64) minMax(par, op int, viaBig bool, f fsArg) *big.Int {
	if viaBig {
		return o.B.MinMaxBig(par, roaring64.Operation(op), o.fs(f))
	}
	return big.NewInt(o.B.MinMax(par, roaring64.Operation(op), o.fs(f)))
}
func (o *ObjBSI64) sum(viaBig bool, f fsArg) (*big.Int, uint64) {
	if viaBig {
		return o.B.SumBigValues(o.fs(f))
	}
	s, n := o.B.Sum(o.fs(f))
	return big.NewInt(s), n
}
func (o *ObjBSI64) transpose(api, par int, f fsArg) (colres, string) {
	if api == 0 {
		return res64{o.B.Transpose()}, ""
	}
	fs := o.fs(f)
	var keep []uint64
	if f.kind == fsFresh {
		keep = fs.ToArray()
	}
	res := o.B.IntersectAndTranspose(par, fs)
	return res64{res}, fsChanged64(f, fs, keep)
}
func (o *ObjBSI64) transposeCounts(par int, f fsArg, filter []uint64) bsiH {
	res := o.B.TransposeWithCounts(par, o.fs(f), mk64(filter))
	if res == nil {
		return nil
	}
	return &ObjBSI64{B: res, M: map[uint64]*big.Int{}, Prov: "TransposeWithCounts result"}
}
func (o *ObjBSI64) rebuilt() bsiH {
	n := newObj64(o.Fixed, o.Max, o.Min, o.NonNeg, "rebuilt")
	func() {
		defer func() { recover() }()
		for _, c := range o.mcols() {
			n.B.SetBigValue(c, new(big.Int).Set(o.M[c]))
		}
	}()
	n.M = o.M
	n.cols, n.colsOK = nil, false
	return n
}

// ---------------------------------------------------------------- 32-bit family

func newObj32(fixed bool, max, min int64, nonneg bool, prov string) *ObjBSI32 {
	o := &ObjBSI32{M: map[uint64]int64{}, Fixed: fixed, Min: min, Max: max, Prov: prov, NonNeg: nonneg}
	if fixed {
		o.B = bsi.NewBSI(max, min)
	} else {
		o.B = bsi.NewDefaultBSI()
	}
	return o
}

func (o *ObjBSI32) is64() bool       { return false }
func (o *ObjBSI32) prov() string     { return o.Prov }
func (o *ObjBSI32) setProv(s string) { o.Prov = s }
func (o *ObjBSI32) desc() string {
	bc := -99
	func() { defer func() { recover() }(); bc = o.B.BitCount() }()
	if o.Fixed {
		return fmt.Sprintf("BitSliceIndexing.BSI NewBSI(max=%d,min=%d) BitCount=%d columns=%d (%s)", o.Max, o.Min, bc, len(o.M), o.Prov)
	}
	return fmt.Sprintf("BitSliceIndexing.BSI auto-sized BitCount=%d columns=%d (%s)", bc, len(o.M), o.Prov)
}
func (o *ObjBSI32) mcols() []uint64 {
	if !o.colsOK {
		o.cols = o.cols[:0]
		for c := range o.M {
			o.cols = append(o.cols, c)
		}
		sort.Slice(o.cols, func(i, j int) bool { return o.cols[i] < o.cols[j] })
		o.colsOK = true
	}
	return o.cols
}
func (o *ObjBSI32) mget(c uint64) (*big.Int, bool) {
	v, ok := o.M[c]
	if !ok {
		return nil, false
	}
	return big.NewInt(v), true
}
func (o *ObjBSI32) mput(c uint64, v *big.Int) {
	if _, ok := o.M[c]; !ok {
		o.colsOK = false
	}
	o.M[c] = v.Int64()
}
func (o *ObjBSI32) mdel(c uint64) {
	if _, ok := o.M[c]; ok {
		o.colsOK = false
		delete(o.M, c)
	}
}
func (o *ObjBSI32) mlen() int { return len(o.M) }
func (o *ObjBSI32) fixedRange() (bool, *big.Int, *big.Int) {
	return o.Fixed, big.NewInt(o.Min), big.NewInt(o.Max)
}
func (o *ObjBSI32) nonNeg() bool { return o.NonNeg || (o.Fixed && o.Min >= 0) }

func (o *ObjBSI32) bitCount() int        { return o.B.BitCount() }
func (o *ObjBSI32) card() uint64         { return o.B.GetCardinality() }
func (o *ObjBSI32) exists(c uint64) bool { return o.B.ValueExists(c) }
func (o *ObjBSI32) getBig(c uint64) (*big.Int, bool) {
	v, ok := o.B.GetValue(c)
	return big.NewInt(v), ok
}
func (o *ObjBSI32) getI64(c uint64) (int64, bool) { return o.B.GetValue(c) }
func (o *ObjBSI32) getValues(cols []uint64) ([]int64, []bool, bool) {
	return nil, nil, false
}
func (o *ObjBSI32) ebmArr() []uint64 { return arr32(o.B.GetExistenceBitmap()) }
func (o *ObjBSI32) planeLeak() string {
	ebm, planes := o.B.VerifPlanes()
	for i, p := range planes {
		if p == nil {
			return fmt.Sprintf("plane %d of %d is nil", i, len(planes))
		}
		if x := roaring.AndNot(p, ebm); !x.IsEmpty() {
			return fmt.Sprintf("plane %d of %d holds column %d which is absent from the existence bitmap", i, len(planes), x.Minimum())
		}
	}
	return ""
}
func (o *ObjBSI32) fs(f fsArg) *roaring.Bitmap {
	switch f.kind {
	case fsNil:
		return nil
	case fsCloneEBM:
		return o.B.GetExistenceBitmap().Clone()
	case fsLiveEBM:
		return o.B.GetExistenceBitmap()
	}
	return mk32(f.cols)
}
func (o *ObjBSI32) setValue(c uint64, v *big.Int, viaBig bool) { o.B.SetValue(c, v.Int64()) }
func (o *ObjBSI32) setMany(cols []uint64, v int64)             { o.B.SetMany(mk32(cols), v) }
func (o *ObjBSI32) clearValues(f fsArg)                        { o.B.ClearValues(o.fs(f)) }
func (o *ObjBSI32) retain(f fsArg) uint64                      { panic("no Retain in BitSliceIndexing") }
func (o *ObjBSI32) increment(variant int, f fsArg) {
	switch variant {
	case 1:
		o.B.Increment(nil)
	case 2:
		o.B.IncrementAll()
	default:
		o.B.Increment(o.fs(f))
	}
}
func (o *ObjBSI32) runOpt() { o.B.RunOptimize() }
func (o *ObjBSI32) parOr(par int, others []bsiH) {
	var l []*bsi.BSI
	for _, x := range others {
		l = append(l, x.(*ObjBSI32).B)
	}
	o.B.ParOr(par, l...)
}
func (o *ObjBSI32) add(other bsiH) { o.B.Add(other.(*ObjBSI32).B) }
func (o *ObjBSI32) copyBSI(method int, f fsArg, seed uint64, recv bsiH) (bsiH, string, error) {
	n := &ObjBSI32{M: map[uint64]int64{}, Prov: copyNames[method] + " of " + o.Prov, NonNeg: o.NonNeg}
	note := ""
	switch method {
	case 0:
		n.B = o.B.Clone()
		n.Fixed, n.Min, n.Max = o.Fixed, o.Min, o.Max // NewBSIRetainSet keeps MaxValue/MinValue
	case 1:
		n.B = o.B.NewBSIRetainSet(o.fs(f))
		n.Fixed, n.Min, n.Max = o.Fixed, o.Min, o.Max
	default:
		data, err := o.B.MarshalBinary()
		if err != nil {
			return nil, "MarshalBinary", err
		}
		if seed&2 == 0 && o.Fixed {
			n.B = bsi.NewBSI(o.Max, o.Min)
			n.Fixed, n.Min, n.Max = true, o.Min, o.Max
			note = "receiver NewBSI(max,min) as the source"
		} else {
			n.B = bsi.NewDefaultBSI()
			note = "receiver NewDefaultBSI()"
		}
		if err := n.B.UnmarshalBinary(data); err != nil {
			return nil, "UnmarshalBinary", err
		}
		// a copying entry point: the caller recycles its record buffers once the call has returned
		for _, d := range data {
			scribble(d)
		}
	}
	keep := f.cols
	for c, v := range o.M {
		if method != 1 || hasU64(keep, c) {
			n.M[c] = v
		}
	}
	return n, note, nil
}
func (o *ObjBSI32) equals(other bsiH) (bool, bool) { return false, false }
func fsChanged32(f fsArg, fs *roaring.Bitmap, keep []uint64) string {
	if f.kind != fsFresh {
		return ""
	}
	if d := diffU64(arr32(fs), keep); d != "" {
		return "the caller's found-set was modified: " + d
	}
	return ""
}
func (o *ObjBSI32) compare(par, op int, c1, c2 *big.Int, viaBig bool, f fsArg) (colres, string) {
	fs := o.fs(f)
	res := o.B.CompareValue(par, bsi.Operation(op), c1.Int64(), c2.Int64(), fs)
	return res32{res}, fsChanged32(f, fs, f.cols)
}
func (o *ObjBSI32) compareBSI(op int, other bsiH, f fsArg) (colres, string) {
	panic("no CompareBSI in BitSliceIndexing")
}
func (o *ObjBSI32) batchEqual(par, api int, vals []*big.Int, f fsArg) (colres, []bsiPair, string) {
	l := make([]int64, len(vals))
	for i, v := range vals {
		l[i] = v.Int64()
	}
	return res32{o.B.BatchEqual(par, l)}, nil, ""
}
func (o *ObjBSI32) minMax(par, op int, viaBig bool, f fsArg) *big.Int {
	return big.NewInt(o.B.MinMax(par, bsi.Operation(op), o.fs(f)))
}
func (o *ObjBSI32) sum(viaBig bool, f fsArg) (*big.Int, uint64) {
	s, n := o.B.Sum(o.fs(f))
	return big.NewInt(s), n
}
func (o *ObjBSI32) transpose(api, par int, f fsArg) (colres, string) {
	if api == 0 {
		return res32{o.B.Transpose()}, ""
	}
	fs := o.fs(f)
	res := o.B.IntersectAndTranspose(par, fs)
	return res32{res}, fsChanged32(f, fs, f.cols)
}
func (o *ObjBSI32) transposeCounts(par int, f fsArg, filter []uint64) bsiH {
	res := o.B.TransposeWithCounts(par, o.fs(f))
	if res == nil {
		return nil
	}
	return &ObjBSI32{B: res, M: map[uint64]int64{}, Prov: "TransposeWithCounts result"}
}
func (o *ObjBSI32) rebuilt() bsiH {
	n := newObj32(o.Fixed, o.Max, o.Min, o.NonNeg, "rebuilt")
	func() {
		defer func() { recover() }()
		for _, c := range o.mcols() {
			n.B.SetValue(c, o.M[c])
		}
	}()
	n.M = o.M
	return n
}

// ---------------------------------------------------------------- population

type bsiFam struct {
	sfx  string
	b64  bool
	get  func(w *World, i int) bsiH
	set  func(w *World, i int, h bsiH)
	mk   func(fixed bool, max, min int64, nonneg bool, prov string) bsiH
	okey int // offset of this family in the outs/queried maps
}

var fam64 = &bsiFam{sfx: "64", b64: true, okey: 0,
	get: func(w *World, i int) bsiH { return w.X.BSI64[i] },
	set: func(w *World, i int, h bsiH) { w.X.BSI64[i] = h.(*ObjBSI64) },
	mk: func(fixed bool, max, min int64, nonneg bool, prov string) bsiH {
		return newObj64(fixed, max, min, nonneg, prov)
	}}
var fam32 = &bsiFam{sfx: "32", b64: false, okey: 8,
	get: func(w *World, i int) bsiH { return w.X.BSI32[i] },
	set: func(w *World, i int, h bsiH) { w.X.BSI32[i] = h.(*ObjBSI32) },
	mk: func(fixed bool, max, min int64, nonneg bool, prov string) bsiH {
		return newObj32(fixed, max, min, nonneg, prov)
	}}

func (x *Ext) initBSI() {
	for i := 0; i < numBSI; i++ {
		x.BSI64 = append(x.BSI64, newObj64(false, 0, 0, false, "new"))
		x.BSI32 = append(x.BSI32, newObj32(false, 0, 0, false, "new"))
	}
	x.outsBSI = map[int]bool{}
	x.qBSI = map[int]bool{}
}

func (F *bsiFam) out(w *World, i int)     { w.X.outsBSI[F.okey+i] = true }
func (F *bsiFam) queried(w *World, i int) { w.X.qBSI[F.okey+i] = true }

func (F *bsiFam) colOK(c uint64) bool { return F.b64 || c < 1<<32 }

func bsiSlotsOK(st *Step, n, na int) bool {
	if len(st.S) < n || len(st.A) < na {
		return false
	}
	for _, s := range st.S {
		if s < 0 || s >= numBSI {
			return false
		}
	}
	return true
}

// chkBSI compares an index with its model through the public API (plus the
// plane cross-invariant through the hook).
func chkBSI(h bsiH) (ok bool, class, detail string) {
	defer func() {
		if r := recover(); r != nil {
			ok, class, detail = false, "panic while reading the index", fmt.Sprintf("panic while reading %s: %v", h.desc(), r)
		}
	}()
	n := h.mlen()
	if got := h.card(); got != uint64(n) {
		return false, "GetCardinality differs from model", fmt.Sprintf("GetCardinality=%d, model holds %d columns", got, n)
	}
	cols := h.mcols()
	if d := diffU64(h.ebmArr(), cols); d != "" {
		return false, "existence bitmap differs from model", "existence bitmap: " + d
	}
	step := 1
	if n > 3000 {
		step = n / 400
	}
	var batch []uint64
	for i := 0; i < n; i += step {
		c := cols[i]
		want, _ := h.mget(c)
		if !h.exists(c) {
			return false, "ValueExists false for a stored column", fmt.Sprintf("ValueExists(%d)=false, model value %s", c, want)
		}
		got, ex := h.getBig(c)
		if !ex {
			return false, "stored column reported absent", fmt.Sprintf("column %d: value reported absent, model value %s", c, want)
		}
		if got == nil || got.Cmp(want) != 0 {
			cl := "stored value differs from model"
			if want.Sign() < 0 {
				cl = "stored negative value differs from model"
			}
			return false, cl, fmt.Sprintf("column %d: got %v want %s", c, got, want)
		}
		if h.is64() && want.IsInt64() {
			gv, ex := h.getI64(c)
			if !ex || gv != want.Int64() {
				return false, "GetValue differs from model", fmt.Sprintf("column %d: GetValue=(%d,%v) want %s", c, gv, ex, want)
			}
			if len(batch) < 48 {
				batch = append(batch, c)
			}
		}
	}
	// a sample of absent columns
	var absent []uint64
	probeAbsent := func(c uint64) {
		if !h.is64() && c >= 1<<32 {
			return
		}
		if _, in := h.mget(c); in {
			return
		}
		absent = append(absent, c)
	}
	for i := 0; i < n && len(absent) < 24; i += 1 + n/12 {
		probeAbsent(cols[i] + 1)
		probeAbsent(cols[i] - 1)
	}
	probeAbsent(0)
	probeAbsent(65536)
	probeAbsent(1<<32 - 1)
	probeAbsent(1 << 32)
	probeAbsent(^uint64(0))
	for _, c := range absent {
		if h.exists(c) {
			return false, "ValueExists true for an absent column", fmt.Sprintf("ValueExists(%d)=true, model has no such column", c)
		}
		if v, ex := h.getBig(c); ex {
			return false, "absent column reported present", fmt.Sprintf("column %d: got (%v,true), model has no such column", c, v)
		}
		if _, ex := h.getI64(c); ex {
			return false, "absent column reported present", fmt.Sprintf("column %d: GetValue exists=true, model has no such column", c)
		}
	}
	// batched read (64-bit only): stored + absent + a duplicate
	if h.is64() && len(batch) > 0 {
		q := append([]uint64(nil), batch...)
		if len(absent) > 0 {
			q = append(q, absent[0])
		}
		q = append(q, batch[0])
		if len(absent) > 1 {
			q = append(q, absent[len(absent)-1])
		}
		vals, exs, _ := h.getValues(q)
		if len(vals) != len(q) || len(exs) != len(q) {
			return false, "GetValues result length wrong", fmt.Sprintf("GetValues(%d ids) returned %d values, %d flags", len(q), len(vals), len(exs))
		}
		for i, c := range q {
			want, in := h.mget(c)
			if exs[i] != in || (in && vals[i] != want.Int64()) {
				return false, "GetValues differs from model", fmt.Sprintf("GetValues[%d] column %d: got (%d,%v) want (%v,%v)", i, c, vals[i], exs[i], want, in)
			}
		}
	}
	// the arbitrary-precision batched read (64-bit family): any stored value, an absent column,
	// a duplicate id; nil means no value
	if o, is := h.(*ObjBSI64); is && n > 0 {
		var q []uint64
		for i := 0; i < n && len(q) < 48; i += step {
			q = append(q, cols[i])
		}
		if len(absent) > 0 {
			q = append(q, absent[0])
		}
		q = append(q, q[0])
		got := o.B.GetBigValues(q)
		if len(got) != len(q) {
			return false, "GetBigValues result length wrong", fmt.Sprintf("GetBigValues(%d ids) returned %d values", len(q), len(got))
		}
		for i, c := range q {
			want, in := h.mget(c)
			if (got[i] != nil) != in || (in && got[i].Cmp(want) != 0) {
				return false, "GetBigValues differs from model", fmt.Sprintf("GetBigValues[%d] column %d: got %v want (%v,%v)", i, c, got[i], want, in)
			}
		}
	}
	if leak := h.planeLeak(); leak != "" {
		return false, "plane holds a column absent from the existence bitmap", leak
	}
	return true, "", ""
}

// afterBSI evaluates the BSI invariants after a step.
func (x *Ext) afterBSI(tag string) {
	w := x.w
	for _, F := range []*bsiFam{fam64, fam32} {
		for i := 0; i < numBSI; i++ {
			h := F.get(w, i)
			k := F.okey + i
			if x.outsBSI[k] && w.panicked {
				F.set(w, i, h.rebuilt())
				continue
			}
			ok, class, d := chkBSI(h)
			if ok {
				continue
			}
			switch {
			case x.outsBSI[k]:
				w.fail(tag, "contents", class, fmt.Sprintf("BSI%s slot %d after %s: %s; index: %s", F.sfx, i, w.curOp, d, h.desc()))
			case x.qBSI[k]:
				w.fail("C20", "index-modified", "query changed the index: "+class, fmt.Sprintf("BSI%s slot %d was only queried by %s: %s; index: %s", F.sfx, i, w.curOp, d, h.desc()))
			default:
				w.fail("C19", "bystander", "index not involved as output changed: "+class, fmt.Sprintf("BSI%s slot %d changed during %s: %s; index: %s", F.sfx, i, w.curOp, d, h.desc()))
			}
			F.set(w, i, h.rebuilt())
		}
	}
	x.outsBSI = map[int]bool{}
	x.qBSI = map[int]bool{}
}

// bsiState fingerprints the abstract BSI state (for the distinct-state measure).
func (x *Ext) bsiState() uint64 {
	h := uint64(0)
	bucket := func(n int) uint64 {
		switch {
		case n == 0:
			return 0
		case n == 1:
			return 1
		case n <= 16:
			return 2
		case n <= 256:
			return 3
		}
		return 4
	}
	for _, F := range []*bsiFam{fam64, fam32} {
		for i := 0; i < numBSI; i++ {
			o := F.get(x.w, i)
			bc := 0
			func() { defer func() { recover() }(); bc = o.bitCount() }()
			fx, _, _ := o.fixedRange()
			v := bucket(o.mlen())<<8 | uint64(bc&0xFF)
			if fx {
				v |= 1 << 16
			}
			h = h*1099511628211 ^ v
		}
	}
	return h
}

// ---------------------------------------------------------------- generation helpers

var bsiBasePool = []uint64{0, 0, 100, 65500, 65536, 1<<32 - 30, 1 << 32, 1<<32 + 65530, 1 << 63, ^uint64(0) - 60, 1<<48 | 5}

func (x *Ext) bsiBase(r *Rng, F *bsiFam) uint64 {
	if len(x.BCols) == 0 {
		n := 2 + r.Intn(3)
		for len(x.BCols) < n {
			if r.Chance(5, 6) {
				x.BCols = append(x.BCols, bsiBasePool[r.Intn(len(bsiBasePool))])
			} else {
				x.BCols = append(x.BCols, r.U64()>>uint(r.Intn(64)))
			}
		}
	}
	b := x.BCols[r.Intn(len(x.BCols))]
	if !F.b64 {
		b &= 0xFFFFFFFF
	}
	return b
}

func (w *World) bsiCol(r *Rng, F *bsiFam, h bsiH) uint64 {
	cols := h.mcols()
	if len(cols) > 0 && r.Chance(2, 5) {
		c := cols[r.Intn(len(cols))]
		switch r.Intn(5) {
		case 0:
			if F.colOK(c + 1) {
				return c + 1
			}
		case 1:
			if c > 0 {
				return c - 1
			}
		}
		return c
	}
	if r.Chance(1, 16) {
		return uint64(r.Intn(2)) // column 0: the id a zero-padded batch names
	}
	c := w.X.bsiBase(r, F) + uint64(r.Intn(64))
	if !F.colOK(c) {
		c &= 0xFFFFFFFF
	}
	return c
}

func (w *World) bsiSlot(r *Rng) int { return r.Intn(numBSI) }
func (w *World) bsiNonEmpty(r *Rng, F *bsiFam) int {
	for t := 0; t < 6; t++ {
		i := r.Intn(numBSI)
		if F.get(w, i).mlen() > 0 {
			return i
		}
	}
	return r.Intn(numBSI)
}

// column-set descriptors: (mode, base, n, seed)
const (
	csRun = iota
	csSparse
	csStride
	csSubset
	csAll
	csSingle
	csEmpty
	csSubsetPlus
	csDisjoint
	csCloneEBM
	csNil
	csLiveEBM
	csNumModes
)

var csNames = []string{"run", "sparse", "stride", "subset of existing", "all existing", "single existing", "empty", "subset plus fresh", "disjoint", "clone of existence bitmap", "nil", "live existence bitmap"}

// csArg materialises a column-set descriptor against the current model.
func csArg(F *bsiFam, h bsiH, cs []uint64) fsArg {
	mode, base, n, seed := int(cs[0]), cs[1], int(cs[2]), cs[3]
	if n > 2000 && mode != csRun {
		n = 2000
	}
	if n > 120000 {
		n = 120000
	}
	r := NewRng(seed)
	have := h.mcols()
	var out []uint64
	fresh := func(kind int) {
		stride := uint64(1 + r.Intn(5))
		for i := 0; i < n; i++ {
			var c uint64
			switch kind {
			case csSparse:
				c = base + uint64(r.Intn(4*n+1))
			case csStride:
				c = base + uint64(i)*stride
			default:
				c = base + uint64(i)
			}
			if c < base || !F.colOK(c) {
				continue
			}
			out = append(out, c)
		}
	}
	kind := fsFresh
	switch mode {
	case csRun, csSparse, csStride:
		fresh(mode)
	case csSubset:
		den := 2 + r.Intn(4)
		for _, c := range have {
			if r.Chance(1, den) {
				out = append(out, c)
			}
		}
	case csAll:
		out = append(out, have...)
	case csSingle:
		if len(have) > 0 {
			out = append(out, have[r.Intn(len(have))])
		}
	case csEmpty:
	case csSubsetPlus:
		for _, c := range have {
			if r.Bool() {
				out = append(out, c)
			}
		}
		fresh(csSparse)
	case csDisjoint:
		fresh(csRun)
		k := 0
		for _, c := range out {
			if !hasU64(have, c) {
				out[k] = c
				k++
			}
		}
		out = out[:k]
	case csCloneEBM:
		out, kind = append(out, have...), fsCloneEBM
	case csNil:
		out, kind = append(out, have...), fsNil
	case csLiveEBM:
		out, kind = append(out, have...), fsLiveEBM
	}
	return fsArg{kind: kind, cols: sortedU64(out)}
}

func csValid(cs []uint64) bool { return len(cs) >= 4 && cs[0] < csNumModes }

var bsiCounts = []int{1, 2, 3, 5, 10, 10, 30, 30, 60, 100, 100, 300, 1000}

// genCS draws a descriptor: anyset=true for update arguments (may hold fresh
// columns), false for found-sets of existing columns.
func (w *World) genCS(r *Rng, F *bsiFam, anyset bool) []uint64 {
	var mode int
	if anyset {
		mode = []int{csRun, csSparse, csStride, csSubset, csSubset, csAll, csSingle, csEmpty, csSubsetPlus, csSubsetPlus, csDisjoint, csCloneEBM}[r.Intn(12)]
	} else {
		mode = []int{csNil, csNil, csAll, csSubset, csSubset, csSubset, csSingle, csSingle, csCloneEBM, csLiveEBM}[r.Intn(10)]
	}
	return []uint64{uint64(mode), w.X.bsiBase(r, F) + uint64(r.Intn(40)), uint64(bsiCounts[r.Intn(len(bsiCounts))]), r.U64()}
}

// valueRange is the range update values may come from: the declared range of a
// fixed index; for an auto-sized one whatever the API can carry.
func valueRange(h bsiH) (lo, hi *big.Int) {
	if fx, l, u := h.fixedRange(); fx {
		return l, u
	}
	if h.is64() {
		return new(big.Int).Neg(pow2(127)), pow2(127)
	}
	return bigMinI64, bigMaxI64
}

// constRange is the range comparison constants may come from: the declared range
// of a fixed index; for an auto-sized one the span of the values it holds (always
// inside whatever width it grew to) extended by 0 (and -1 for the signed 64-bit
// layout, whose narrowest width already covers [-1,0]).
func constRange(h bsiH) (lo, hi *big.Int) {
	if fx, l, u := h.fixedRange(); fx {
		return l, u
	}
	lo, hi = big.NewInt(0), big.NewInt(0)
	if h.is64() {
		lo = big.NewInt(-1)
	}
	for _, c := range h.mcols() {
		v, _ := h.mget(c)
		if v.Cmp(lo) < 0 {
			lo = v
		}
		if v.Cmp(hi) > 0 {
			hi = v
		}
	}
	return lo, hi
}

var bsiWidths = []int{1, 2, 6, 7, 8, 15, 16, 30, 31, 32, 33, 47, 62}

// genValue draws one update value for h.
func (w *World) genValue(r *Rng, F *bsiFam, h bsiH) *big.Int {
	lo, hi := valueRange(h)
	nonneg := h.nonNeg()
	if nonneg && lo.Sign() < 0 {
		lo = big.NewInt(0)
	}
	fx, _, _ := h.fixedRange()
	cols := h.mcols()
	var v *big.Int
	pickExisting := func() *big.Int {
		x, _ := h.mget(cols[r.Intn(len(cols))])
		return new(big.Int).Set(x)
	}
	switch k := r.Intn(20); {
	case k < 3 && len(cols) > 0:
		v = pickExisting()
		v.Add(v, big.NewInt(int64(r.Intn(3)-1)))
	case k < 7:
		v = big.NewInt(int64(r.Intn(9) - 4))
	case k < 9 && fx:
		v = []*big.Int{lo, hi, new(big.Int).Add(lo, bigOne), new(big.Int).Sub(hi, bigOne)}[r.Intn(4)]
	case k < 9:
		v = []*big.Int{bigMaxI64, bigMinI64, new(big.Int).Add(bigMinI64, bigOne), big.NewInt(1<<32 - 1), big.NewInt(-1 << 31)}[r.Intn(5)]
	case k < 14:
		v = pow2(bsiWidths[r.Intn(len(bsiWidths))])
		v.Add(v, big.NewInt(int64(r.Intn(3)-1)))
		if r.Bool() {
			v.Neg(v)
		}
	case k < 15 && F.b64 && !fx:
		v = pow2([]int{63, 64, 65, 70, 100}[r.Intn(5)])
		v.Add(v, big.NewInt(int64(r.Intn(3)-1)))
		if r.Bool() {
			v.Neg(v)
		}
	case fx:
		v = rndBig(r, lo, hi)
	default:
		v = new(big.Int).SetUint64(r.U64() >> uint(1+r.Intn(63)))
		if r.Bool() {
			v.Neg(v)
		}
	}
	if nonneg && v.Sign() < 0 {
		v = new(big.Int).Neg(v)
	}
	return new(big.Int).Set(clampBig(v, lo, hi))
}

// genConst draws a comparison constant inside constRange(h).
func (w *World) genConst(r *Rng, h bsiH) *big.Int {
	lo, hi := constRange(h)
	cols := h.mcols()
	var v *big.Int
	switch k := r.Intn(10); {
	case k < 4 && len(cols) > 0:
		x, _ := h.mget(cols[r.Intn(len(cols))])
		v = new(big.Int).Set(x)
	case k < 6 && len(cols) > 0:
		x, _ := h.mget(cols[r.Intn(len(cols))])
		v = new(big.Int).Add(x, big.NewInt(int64(2*r.Intn(2)-1)))
	case k < 7:
		v = []*big.Int{lo, hi}[r.Intn(2)]
	case k < 8:
		v = big.NewInt(int64(r.Intn(3) - 1))
	default:
		v = rndBig(r, lo, hi)
	}
	return new(big.Int).Set(clampBig(v, lo, hi))
}

// valList materialises a value list for a bulk fill: n values inside the index's
// value range, limited to k magnitude bits.
func valList(h bsiH, shape, k int, seed uint64, n int) []*big.Int {
	r := NewRng(seed)
	lo, hi := valueRange(h)
	L, H := new(big.Int).Neg(pow2(k)), new(big.Int).Sub(pow2(k), bigOne)
	if h.nonNeg() {
		L = big.NewInt(0)
	}
	if L.Cmp(lo) < 0 {
		L = lo
	}
	if H.Cmp(hi) > 0 {
		H = hi
	}
	if L.Cmp(H) > 0 {
		L, H = lo, hi
		if h.nonNeg() && L.Sign() < 0 && H.Sign() >= 0 {
			L = big.NewInt(0)
		}
	}
	out := make([]*big.Int, n)
	switch shape {
	case 0: // small domain: duplicates
		d := 1 + r.Intn(6)
		dom := make([]*big.Int, d)
		for i := range dom {
			if r.Bool() {
				dom[i] = clampBig(big.NewInt(int64(r.Intn(7)-3)), L, H)
			} else {
				dom[i] = rndBig(r, L, H)
			}
		}
		for i := range out {
			out[i] = dom[r.Intn(d)]
		}
	case 2: // ramp, crossing zero when the range allows
		start := clampBig(big.NewInt(int64(-(n / 2))), L, H)
		if r.Bool() {
			start = L
		}
		for i := range out {
			out[i] = clampBig(new(big.Int).Add(start, big.NewInt(int64(i))), L, H)
		}
	case 3: // extremes
		ex := []*big.Int{L, H, new(big.Int).Add(L, bigOne), new(big.Int).Sub(H, bigOne), big.NewInt(0), big.NewInt(-1), big.NewInt(1)}
		for i := range out {
			out[i] = clampBig(ex[r.Intn(len(ex))], L, H)
		}
	case 4: // powers of two of both signs
		for i := range out {
			v := pow2(i % (k + 1))
			if r.Bool() {
				v.Sub(v, bigOne)
			}
			if r.Bool() {
				v.Neg(v)
			}
			out[i] = clampBig(v, L, H)
		}
	default:
		for i := range out {
			out[i] = rndBig(r, L, H)
		}
	}
	return out
}

const numValShapes = 5

// ---------------------------------------------------------------- C19: updates and copies

var bsiFixedPool = [][2]int64{ // (max, min)
	{100, 0}, {255, 0}, {1000, -1000}, {0x7FFFFFFF, -0x80000000}, {1<<63 - 1, -1 << 63}, {0, -128},
	{65535, -1}, {1 << 40, 0}, {1<<63 - 1, 0}, {-1, -10}, {127, -128}, {7, 0}, {1, 0},
}

func allNonNeg(h bsiH) bool {
	for _, c := range h.mcols() {
		if v, _ := h.mget(c); v.Sign() < 0 {
			return false
		}
	}
	return true
}

func anyNeg(h bsiH) bool { return !allNonNeg(h) }

// planeCount is the number of bitmaps the index carries for values (the 64-bit
// layout has one more, the sign plane, at the top).
func realBitCount(h bsiH) (bc int) {
	defer func() {
		if r := recover(); r != nil {
			bc = -1
		}
	}()
	return h.bitCount()
}

func regBSIUpdates(F *bsiFam) {
	sfx := F.sfx
	fam := "BitSliceIndexing"
	if F.b64 {
		fam = "roaring64"
	}
	reg(&opDef{name: "bsinew" + sfx, tag: "C19",
		gen: func(w *World, r *Rng) (Step, bool) {
			i := w.bsiSlot(r)
			// prefer resetting an empty or a large slot
			for t := 0; t < 3; t++ {
				if n := F.get(w, i).mlen(); n == 0 || n > 1500 {
					break
				}
				i = w.bsiSlot(r)
			}
			if r.Chance(1, 2) {
				return Step{S: []int{i}, A: []uint64{0, 0, 0, uint64(r.Intn(2))}}, true
			}
			p := bsiFixedPool[r.Intn(len(bsiFixedPool))]
			return Step{S: []int{i}, A: []uint64{1, uint64(p[0]), uint64(p[1]), 0}}, true
		},
		valid: func(w *World, st *Step) bool {
			if !bsiSlotsOK(st, 1, 4) {
				return false
			}
			max, min := int64(st.A[1]), int64(st.A[2])
			return st.A[0] == 0 || (max >= min && !(max == 0 && min == 0))
		},
		exec: func(w *World, st *Step) {
			var h bsiH
			w.try("C19", func() {
				if st.A[0] == 0 {
					h = F.mk(false, 0, 0, st.A[3] == 1, "NewDefaultBSI")
				} else {
					h = F.mk(true, int64(st.A[1]), int64(st.A[2]), false, "NewBSI")
				}
			})
			if h != nil {
				F.set(w, st.S[0], h)
			}
			F.out(w, st.S[0])
		}})

	setOK := func(h bsiH, v *big.Int, viaBig bool) bool {
		if viaBig && !h.is64() {
			return false
		}
		if !viaBig && !v.IsInt64() {
			return false
		}
		lo, hi := valueRange(h)
		return inBig(v, lo, hi) && encodable(v)
	}
	noteSet := func(w *World, h bsiH, col uint64, v *big.Int) {
		fx, _, _ := h.fixedRange()
		bc := realBitCount(h)
		need := v.BitLen()
		if !h.is64() && v.Sign() < 0 {
			need = 64
		}
		if !fx && h.mlen() > 0 && need > bc {
			w.probe("bsi" + sfx + "-set-widens-nonempty-index")
			if anyNeg(h) {
				w.probe("bsi" + sfx + "-set-widens-index-holding-negatives")
			}
		}
		if old, ok := h.mget(col); ok {
			if old.BitLen() > v.BitLen() {
				w.probe("bsi" + sfx + "-overwrite-with-narrower")
			}
			if old.Sign() != v.Sign() {
				w.probe("bsi" + sfx + "-overwrite-changes-sign")
			}
		}
		if v.Sign() < 0 {
			w.probe("bsi" + sfx + "-set-negative")
		}
		if !v.IsInt64() {
			w.probe("bsi" + sfx + "-set-wider-than-int64")
		}
		if fx {
			if _, lo, hi := h.fixedRange(); v.Cmp(lo) == 0 || v.Cmp(hi) == 0 {
				w.probe("bsi" + sfx + "-set-extreme-of-declared-range")
			}
		}
	}
	reg(&opDef{name: "bsiset" + sfx, tag: "C19",
		gen: func(w *World, r *Rng) (Step, bool) {
			i := w.bsiSlot(r)
			h := F.get(w, i)
			v := w.genValue(r, F, h)
			api := uint64(0)
			if F.b64 && (!v.IsInt64() || r.Chance(1, 3)) {
				api = 1
			}
			return Step{S: []int{i}, A: append([]uint64{w.bsiCol(r, F, h), api}, encBig(v)...)}, true
		},
		valid: func(w *World, st *Step) bool {
			if !bsiSlotsOK(st, 1, 5) || !F.colOK(st.A[0]) {
				return false
			}
			return setOK(F.get(w, st.S[0]), bigOf(st.A[2], st.A[3], st.A[4]), st.A[1] == 1)
		},
		exec: func(w *World, st *Step) {
			h := F.get(w, st.S[0])
			v := bigOf(st.A[2], st.A[3], st.A[4])
			noteSet(w, h, st.A[0], v)
			h.mput(st.A[0], v)
			F.out(w, st.S[0])
			w.try("C19", func() { h.setValue(st.A[0], v, st.A[1] == 1) })
		}})

	// bsifill: n SetValue calls on fresh or existing columns (seed, n, shape)
	reg(&opDef{name: "bsifill" + sfx, tag: "C19",
		gen: func(w *World, r *Rng) (Step, bool) {
			i := w.bsiSlot(r)
			k := bsiWidths[r.Intn(len(bsiWidths))]
			if r.Chance(1, 12) {
				k = 63
			}
			if F.b64 && r.Chance(1, 7) {
				k = []int{64, 70, 100}[r.Intn(3)]
			}
			mode := []int{csRun, csRun, csSparse, csStride, csSubsetPlus}[r.Intn(5)]
			n := bsiCounts[r.Intn(len(bsiCounts))]
			return Step{S: []int{i}, A: []uint64{uint64(mode), w.X.bsiBase(r, F) + uint64(r.Intn(40)), uint64(n), r.U64(), uint64(r.Intn(numValShapes)), uint64(k), r.U64()}}, true
		},
		valid: func(w *World, st *Step) bool {
			if !bsiSlotsOK(st, 1, 7) || !csValid(st.A) || st.A[5] > 100 || st.A[5] < 1 {
				return false
			}
			return F.b64 || st.A[5] <= 63
		},
		exec: func(w *World, st *Step) {
			h := F.get(w, st.S[0])
			cols := csArg(F, h, st.A[:4]).cols
			vals := valList(h, int(st.A[4]), int(st.A[5]), st.A[6], len(cols))
			F.out(w, st.S[0])
			for j, c := range cols {
				if j < 40 {
					noteSet(w, h, c, vals[j])
				}
				h.mput(c, vals[j])
			}
			w.try("C19", func() {
				for j, c := range cols {
					h.setValue(c, vals[j], !vals[j].IsInt64())
				}
			})
		}})

	reg(&opDef{name: "bsisetmany" + sfx, tag: "C19",
		gen: func(w *World, r *Rng) (Step, bool) {
			i := w.bsiSlot(r)
			h := F.get(w, i)
			v := w.genValue(r, F, h)
			if !v.IsInt64() {
				v = big.NewInt(int64(r.Intn(200) - 100))
				lo, hi := valueRange(h)
				v = clampBig(v, lo, hi)
				if h.nonNeg() && v.Sign() < 0 {
					v = new(big.Int).Neg(v)
				}
			}
			return Step{S: []int{i}, A: append(w.genCS(r, F, true), encBig(v)...)}, true
		},
		valid: func(w *World, st *Step) bool {
			if !bsiSlotsOK(st, 1, 7) || !csValid(st.A) || st.A[0] == csLiveEBM || st.A[0] == csNil {
				return false
			}
			return setOK(F.get(w, st.S[0]), bigOf(st.A[4], st.A[5], st.A[6]), false)
		},
		exec: func(w *World, st *Step) {
			h := F.get(w, st.S[0])
			fs := csArg(F, h, st.A[:4])
			v := bigOf(st.A[4], st.A[5], st.A[6])
			if len(fs.cols) == 0 {
				w.probe("bsi" + sfx + "-setmany-empty-set")
			}
			for j, c := range fs.cols {
				if j < 40 {
					noteSet(w, h, c, v)
				}
				h.mput(c, v)
			}
			F.out(w, st.S[0])
			w.try("C19", func() { h.setMany(fs.cols, v.Int64()) })
		}})

	reg(&opDef{name: "bsiclear" + sfx, tag: "C19",
		gen: func(w *World, r *Rng) (Step, bool) {
			return Step{S: []int{w.bsiNonEmpty(r, F)}, A: w.genCS(r, F, true)}, true
		},
		valid: func(w *World, st *Step) bool {
			// the live existence bitmap as argument is outside the domain (it is written while read)
			return bsiSlotsOK(st, 1, 4) && csValid(st.A) && st.A[0] != csLiveEBM && st.A[0] != csNil
		},
		exec: func(w *World, st *Step) {
			h := F.get(w, st.S[0])
			fs := csArg(F, h, st.A[:4])
			w.probe("bsi" + sfx + "-clear-" + csNames[st.A[0]])
			for _, c := range fs.cols {
				h.mdel(c)
			}
			F.out(w, st.S[0])
			w.try("C19", func() { h.clearValues(fs) })
		}})

	if F.b64 {
		reg(&opDef{name: "bsiretain" + sfx, tag: "C19",
			gen: func(w *World, r *Rng) (Step, bool) {
				return Step{S: []int{w.bsiNonEmpty(r, F)}, A: w.genCS(r, F, true)}, true
			},
			valid: func(w *World, st *Step) bool {
				return bsiSlotsOK(st, 1, 4) && csValid(st.A) && st.A[0] != csLiveEBM && st.A[0] != csNil
			},
			exec: func(w *World, st *Step) {
				h := F.get(w, st.S[0])
				fs := csArg(F, h, st.A[:4])
				var drop []uint64
				for _, c := range h.mcols() {
					if !hasU64(fs.cols, c) {
						drop = append(drop, c)
					}
				}
				for _, c := range drop {
					h.mdel(c)
				}
				if len(drop) == 0 {
					w.probe("bsi64-retain-drops-nothing")
				}
				F.out(w, st.S[0])
				w.try("C19", func() {
					if got := h.retain(fs); got != uint64(len(drop)) {
						w.fail("C19", "retain-count", "Retain reports a wrong number of dropped columns", fmt.Sprintf("Retain returned %d, %d columns were dropped; %s", got, len(drop), h.desc()))
					}
				})
			}})
	}

	// ParOr: disjoint column sets; a participant narrower than the widest one must
	// hold no negative value (the sign plane sits at the top of each index and is
	// not extended when widths differ); values must fit a fixed destination.
	parOrOK := func(w *World, st *Step) bool {
		if !bsiSlotsOK(st, 2, 1) || len(st.S) > 3 {
			return false
		}
		seen := map[int]bool{}
		for _, s := range st.S {
			if seen[s] {
				return false
			}
			seen[s] = true
		}
		dst := F.get(w, st.S[0])
		widest := 0
		for _, s := range st.S {
			if bc := realBitCount(F.get(w, s)); bc > widest {
				widest = bc
			}
		}
		fx, lo, hi := dst.fixedRange()
		for k, s := range st.S {
			h := F.get(w, s)
			if F.b64 && realBitCount(h) < widest && anyNeg(h) {
				return false
			}
			for _, c := range h.mcols() {
				if k > 0 && fx {
					if v, _ := h.mget(c); !inBig(v, lo, hi) {
						return false
					}
				}
				for _, s2 := range st.S[k+1:] {
					if _, both := F.get(w, s2).mget(c); both {
						return false
					}
				}
			}
		}
		return true
	}
	reg(&opDef{name: "bsiparor" + sfx, tag: "C19",
		gen: func(w *World, r *Rng) (Step, bool) {
			p := []int{0, 1, 2}
			for i := 2; i > 0; i-- {
				j := r.Intn(i + 1)
				p[i], p[j] = p[j], p[i]
			}
			st := Step{S: p[:2+r.Intn(2)], A: []uint64{uint64([]int{0, 1, 2, 3, 5}[r.Intn(5)])}}
			if parOrOK(w, &st) {
				return st, true
			}
			// make room: clear from the destination whatever collides (a recorded step of its own)
			dst := F.get(w, st.S[0])
			if dst.mlen() > 0 && r.Chance(1, 2) {
				return Step{Op: "bsiclear" + sfx, S: []int{st.S[0]}, A: []uint64{csAll, 0, 0, 0}}, true
			}
			return Step{}, false
		},
		valid: parOrOK,
		exec: func(w *World, st *Step) {
			dst := F.get(w, st.S[0])
			var others []bsiH
			mixed := false
			// C12: the same merge with one worker, on a clone of the receiver, is what every other
			// worker count must reproduce
			var ref bsiH
			if st.A[0] != 1 && (w.Cfg.Prop == "C12" || w.step%3 == 0) {
				var srcs []bsiH
				for _, s := range st.S[1:] {
					srcs = append(srcs, F.get(w, s))
				}
				w.try("C19", func() {
					if c, _, err := dst.copyBSI(0, fsArg{}, 0, nil); err == nil && c != nil {
						c.parOr(1, srcs)
						ref = c
					}
				})
			}
			for _, s := range st.S[1:] {
				o := F.get(w, s)
				others = append(others, o)
				if realBitCount(o) != realBitCount(dst) {
					mixed = true
				}
				for _, c := range o.mcols() {
					v, _ := o.mget(c)
					dst.mput(c, v)
				}
			}
			if mixed {
				w.probe("bsi" + sfx + "-paror-different-widths")
			}
			if len(others) > 1 {
				w.probe("bsi" + sfx + "-paror-two-sources")
			}
			F.out(w, st.S[0])
			if w.try("C19", func() { dst.parOr(int(st.A[0]), others) }) || ref == nil {
				return
			}
			w.try("C19", func() {
				for _, c := range dst.mcols() {
					a, ea := dst.getBig(c)
					b, eb := ref.getBig(c)
					if ea != eb || (ea && a.Cmp(b) != 0) {
						w.fail("C12+C19", "worker-count-dependent", fam+" ParOr: result depends on the worker count", fmt.Sprintf("column %d: ParOr(%d, ...) gives %v (exists=%v), ParOr(1, ...) on a clone of the same receiver gives %v (exists=%v); %s", c, st.A[0], a, ea, b, eb, dst.desc()))
						return
					}
				}
				w.probe("bsi" + sfx + "-paror-compared-with-one-worker")
			})
		}})

	// Increment / IncrementAll: every value of the index non-negative, results in range
	incOK := func(w *World, st *Step) bool {
		if !bsiSlotsOK(st, 1, 5) || st.A[0] > 2 || !csValid(st.A[1:]) {
			return false
		}
		switch st.A[1] {
		case csSubset, csAll, csSingle, csEmpty, csCloneEBM:
		default:
			return false
		}
		h := F.get(w, st.S[0])
		if !allNonNeg(h) {
			return false
		}
		_, hi := valueRange(h)
		fs := csArg(F, h, st.A[1:5])
		cols := fs.cols
		if st.A[0] != 0 {
			cols = h.mcols()
		}
		for _, c := range cols {
			v, _ := h.mget(c)
			if v.Cmp(hi) >= 0 {
				return false
			}
		}
		return true
	}
	reg(&opDef{name: "bsiinc" + sfx, tag: "C19",
		gen: func(w *World, r *Rng) (Step, bool) {
			i := w.bsiNonEmpty(r, F)
			cs := w.genCS(r, F, false)
			cs[0] = uint64([]int{csSubset, csSubset, csAll, csSingle, csEmpty, csCloneEBM}[r.Intn(6)])
			st := Step{S: []int{i}, A: append([]uint64{uint64(r.Intn(3))}, cs...)}
			return st, incOK(w, &st)
		},
		valid: incOK,
		exec: func(w *World, st *Step) {
			h := F.get(w, st.S[0])
			fs := csArg(F, h, st.A[1:5])
			cols := fs.cols
			if st.A[0] != 0 {
				cols = append([]uint64(nil), h.mcols()...)
			}
			carry := false
			for _, c := range cols {
				v, _ := h.mget(c)
				nv := new(big.Int).Add(v, bigOne)
				if nv.BitLen() > v.BitLen() && v.Sign() > 0 {
					carry = true
				}
				h.mput(c, nv)
			}
			if carry {
				w.probe("bsi" + sfx + "-increment-carries-into-a-new-bit")
			}
			F.out(w, st.S[0])
			w.curOp = "bsiinc" + sfx + ":" + []string{"Increment", "Increment(nil)", "IncrementAll"}[st.A[0]]
			w.try("C19", func() { h.increment(int(st.A[0]), fs) })
		}})

	addOK := func(w *World, st *Step) bool {
		if !bsiSlotsOK(st, 2, 0) || st.S[0] == st.S[1] {
			return false
		}
		a, b := F.get(w, st.S[0]), F.get(w, st.S[1])
		if !allNonNeg(a) || !allNonNeg(b) {
			return false
		}
		lo, hi := valueRange(a)
		for _, c := range b.mcols() {
			v, _ := b.mget(c)
			s := new(big.Int).Set(v)
			if x, ok := a.mget(c); ok {
				s.Add(s, x)
			}
			if !inBig(s, lo, hi) || !encodable(s) {
				return false
			}
		}
		return true
	}
	reg(&opDef{name: "bsiadd" + sfx, tag: "C19",
		gen: func(w *World, r *Rng) (Step, bool) {
			st := Step{S: []int{w.bsiSlot(r), w.bsiNonEmpty(r, F)}}
			return st, addOK(w, &st)
		},
		valid: addOK,
		exec: func(w *World, st *Step) {
			a, b := F.get(w, st.S[0]), F.get(w, st.S[1])
			overlap := false
			for _, c := range b.mcols() {
				v, _ := b.mget(c)
				s := new(big.Int).Set(v)
				if x, ok := a.mget(c); ok {
					s.Add(s, x)
					overlap = true
				}
				a.mput(c, s)
			}
			if overlap {
				w.probe("bsi" + sfx + "-add-overlapping-columns")
			}
			if realBitCount(a) != realBitCount(b) {
				w.probe("bsi" + sfx + "-add-different-widths")
			}
			F.out(w, st.S[0])
			w.try("C19", func() { a.add(b) })
		}})

	reg(&opDef{name: "bsicopy" + sfx, tag: "C19",
		gen: func(w *World, r *Rng) (Step, bool) {
			src := w.bsiNonEmpty(r, F)
			dst := (src + 1 + r.Intn(numBSI-1)) % numBSI
			nm := 3
			if F.b64 {
				nm = 4
			}
			cs := w.genCS(r, F, true)
			return Step{S: []int{dst, src}, A: append([]uint64{uint64(r.Intn(nm))}, append(cs, r.U64())...)}, true
		},
		valid: func(w *World, st *Step) bool {
			if !bsiSlotsOK(st, 2, 6) || st.S[0] == st.S[1] || !csValid(st.A[1:]) {
				return false
			}
			if st.A[0] > 3 || (!F.b64 && st.A[0] > 2) {
				return false
			}
			return st.A[1] != csLiveEBM && st.A[1] != csNil
		},
		exec: func(w *World, st *Step) {
			src := F.get(w, st.S[1])
			method := int(st.A[0])
			fs := csArg(F, src, st.A[1:5])
			if method != 1 {
				fs = fsArg{kind: fsFresh, cols: src.mcols()}
			}
			w.curOp = "bsicopy" + sfx + ":" + copyNames[method]
			if anyNeg(src) {
				w.probe("bsi" + sfx + "-copy-of-index-holding-negatives:" + copyNames[method])
			}
			var n bsiH
			var note string
			var err error
			if w.try("C19", func() { n, note, err = src.copyBSI(method, fs, st.A[5], F.get(w, st.S[0])) }) {
				return
			}
			if err != nil {
				w.fail("C19", "copy-error", note+" of a library-made index failed", fmt.Sprintf("%s: %v; source %s", note, err, src.desc()))
				return
			}
			F.set(w, st.S[0], n)
			F.out(w, st.S[0])
			full := true
			for _, c := range src.mcols() {
				if !hasU64(fs.cols, c) {
					full = false
					break
				}
			}
			if full {
				w.try("C19", func() {
					if eq, known := src.equals(n); known && !eq {
						w.fail("C19", "copy-equals", "copy is not Equal to its source", fmt.Sprintf("%s: source.Equals(copy) && copy.Equals(source) is false (%s); source %s", copyNames[method], note, src.desc()))
					}
				})
			}
		}})

	reg(&opDef{name: "bsiopt" + sfx, tag: "C19",
		gen: func(w *World, r *Rng) (Step, bool) {
			return Step{S: []int{w.bsiNonEmpty(r, F)}}, true
		},
		valid: func(w *World, st *Step) bool { return bsiSlotsOK(st, 1, 0) },
		exec: func(w *World, st *Step) {
			h := F.get(w, st.S[0])
			F.out(w, st.S[0])
			w.try("C19", func() { h.runOpt() })
		}})
}

// ---------------------------------------------------------------- C20: queries

var bsiOpNames = []string{"?", "LT", "LE", "EQ", "GE", "GT", "RANGE", "MIN", "MAX"}
var bsiPars = []int{0, 1, 2, 3, 5}

func predBSI(op int, v, c1, c2 *big.Int) bool {
	switch op {
	case 1:
		return v.Cmp(c1) < 0
	case 2:
		return v.Cmp(c1) <= 0
	case 3:
		return v.Cmp(c1) == 0
	case 4:
		return v.Cmp(c1) >= 0
	case 5:
		return v.Cmp(c1) > 0
	}
	return v.Cmp(c1) >= 0 && v.Cmp(c2) <= 0
}

// queryTwice runs a bitmap-valued query, compares it with want, mutates the
// returned bitmap and runs the query again: the answer must be the same.
func (w *World) queryTwice(what string, run func() (colres, string), want []uint64, fs fsArg, ctx func() string) {
	for round := 0; round < 2; round++ {
		var res colres
		var note string
		if w.try("C20", func() { res, note = run() }) {
			return
		}
		if res == nil || res.isNil() {
			w.fail("C20", "nil-result", what+" returned nil", what+" returned nil; "+ctx())
			return
		}
		if note != "" {
			w.fail("C20", "argument-modified", what+" modified the caller's found-set", note+"; "+ctx())
		}
		var got []uint64
		if w.try("C20", func() { got = res.arr() }) {
			return
		}
		if d := diffU64(got, want); d != "" {
			oracle, class := "result", what+" wrong"
			if round == 1 {
				oracle, class = "repeat", what+" differs after the caller modified the previous result"
			} else {
				for _, c := range got {
					if !hasU64(fs.cols, c) {
						class = what + " returned a column outside the found-set"
						d = fmt.Sprintf("column %d is not in the found-set; %s", c, d)
						break
					}
				}
			}
			w.fail("C20", oracle, class, fmt.Sprintf("%s: %s (got %d columns, want %d); %s", what, d, len(got), len(want), ctx()))
			return
		}
		if round == 0 {
			// the caller owns the result: change it
			fresh := uint64(12345)
			for hasU64(got, fresh) || hasU64(fs.cols, fresh) {
				fresh += 7919
			}
			w.try("C20", func() {
				res.add(fresh)
				if len(got) > 0 {
					res.remove(got[0])
					res.remove(got[len(got)-1])
				}
			})
		}
	}
}

// presentValues: the distinct stored values, ascending.
func presentValues(h bsiH) []*big.Int {
	var vs []*big.Int
	for _, c := range h.mcols() {
		v, _ := h.mget(c)
		vs = append(vs, v)
	}
	sort.Slice(vs, func(i, j int) bool { return vs[i].Cmp(vs[j]) < 0 })
	out := vs[:0]
	for i, v := range vs {
		if i == 0 || v.Cmp(vs[i-1]) != 0 {
			out = append(out, v)
		}
	}
	return out
}

// batchVals materialises a value-list descriptor against the current model.
func batchVals(h bsiH, shape, n int, seed uint64) []*big.Int {
	r := NewRng(seed)
	lo, hi := constRange(h)
	pres := presentValues(h)
	if n > 400 {
		n = 400
	}
	pick := func() *big.Int {
		if len(pres) == 0 {
			return rndBig(r, lo, hi)
		}
		return pres[r.Intn(len(pres))]
	}
	var out []*big.Int
	switch shape {
	case 0: // present values with duplicates
		for i := 0; i < n; i++ {
			out = append(out, pick())
		}
	case 2: // a complete cube of 2^k values around a present value
		k := uint(1 + r.Intn(4))
		v := pick()
		base := new(big.Int).Rsh(v, k) // floor division: fine for negatives
		base.Lsh(base, k)
		for j := int64(0); j < 1<<k; j++ {
			x := new(big.Int).Add(base, big.NewInt(j))
			if inBig(x, lo, hi) {
				out = append(out, x)
			}
		}
		for i := len(out) - 1; i > 0; i-- {
			j := r.Intn(i + 1)
			out[i], out[j] = out[j], out[i]
		}
		if len(out) > 0 && r.Bool() {
			out = append(out, out[0])
		}
	case 3: // one value
		if r.Bool() {
			out = append(out, pick())
		} else {
			out = append(out, rndBig(r, lo, hi))
		}
	case 4: // a long list
		if n < 130 {
			n = 130 + r.Intn(100)
		}
		for i := 0; i < n; i++ {
			if r.Chance(1, 4) {
				out = append(out, pick())
			} else {
				out = append(out, rndBig(r, lo, hi))
			}
		}
	case 6: // the complete value space of the index's current width, both signs (a "cube"
		// with no fixed bit at all), when that is at most 1024 values
		bc := h.bitCount()
		if bc >= 1 && bc <= 9 {
			fx, _, _ := h.fixedRange()
			for x := -(int64(1) << uint(bc)); x < int64(1)<<uint(bc); x++ {
				if x < 0 && h.nonNeg() {
					continue
				}
				// an auto-sized index: whatever fits the width it has grown to; a fixed one: its declared range
				if v := big.NewInt(x); !fx || inBig(v, lo, hi) {
					out = append(out, v)
				}
			}
			for i := len(out) - 1; i > 0; i-- {
				j := r.Intn(i + 1)
				out[i], out[j] = out[j], out[i]
			}
		} else {
			out = append(out, pick())
		}
	case 5: // relatives of present values under byte-string encodings (sign tags, prefixes):
		// whatever key a lookup structure derives from a value, two values must not share it
		tags := []byte{'-', '+', 0x00, 0x01, 0x80, 0xFF, '0', '1', 'n', 'p'}
		for i := 0; i < n && len(out) < 3*n+8; i++ {
			v := pick()
			mag := new(big.Int).Abs(v).Bytes()
			cands := []*big.Int{new(big.Int).Neg(v)}
			t := tags[r.Intn(len(tags))]
			if i%3 == 0 {
				t = '-'
			}
			withTag := new(big.Int).SetBytes(append([]byte{t}, mag...))
			cands = append(cands, withTag, new(big.Int).Neg(withTag))
			if len(mag) > 1 {
				rest := new(big.Int).SetBytes(mag[1:])
				cands = append(cands, rest, new(big.Int).Neg(rest))
			}
			for _, c := range cands {
				if inBig(c, lo, hi) {
					out = append(out, c)
				}
			}
			if r.Chance(1, 3) {
				out = append(out, v)
			}
		}
	default: // present, neighbours, absent
		for i := 0; i < n; i++ {
			switch r.Intn(4) {
			case 0, 1:
				out = append(out, pick())
			case 2:
				out = append(out, clampBig(new(big.Int).Add(pick(), big.NewInt(int64(2*r.Intn(2)-1))), lo, hi))
			default:
				out = append(out, rndBig(r, lo, hi))
			}
		}
	}
	return out
}

const numBatchShapes = 7

// batchPath names the implementation path the 64-bit BatchEqual family takes.
func batchPath64(bc int, api int, vals []*big.Int) string {
	if bc >= 64 {
		return "scan"
	}
	if api == 1 {
		for _, v := range vals {
			if !v.IsInt64() {
				return "scan"
			}
		}
	}
	if api == 2 {
		return "trie-values"
	}
	if bc >= 63 {
		return "trie"
	}
	mask := uint64(1)<<uint(bc+1) - 1
	seen := map[uint64]bool{}
	and, or := mask, uint64(0)
	for _, v := range vals {
		if !v.IsInt64() {
			continue
		}
		x := v.Int64()
		if x < -(int64(1)<<uint(bc)) || x > int64(1)<<uint(bc)-1 {
			continue
		}
		e := uint64(x) & mask
		seen[e] = true
		and &= e
		or |= e
	}
	if len(seen) == 0 {
		return "empty"
	}
	variable := 0
	for m := or &^ and; m != 0; m &= m - 1 {
		variable++
	}
	if uint64(len(seen)) == uint64(1)<<uint(variable) {
		return "cube"
	}
	return "trie"
}

func regBSIQueries(F *bsiFam) {
	sfx := F.sfx
	fam := "BitSliceIndexing"
	if F.b64 {
		fam = "roaring64"
	}
	foundOK := func(mode uint64) bool {
		switch mode {
		case csNil, csAll, csSubset, csSingle, csCloneEBM, csLiveEBM:
			return true
		}
		return false
	}

	// ------------------------------------------------------------ CompareValue / CompareBigValue
	cmpOK := func(w *World, st *Step) bool {
		if !bsiSlotsOK(st, 1, 13) || st.A[0] < 1 || st.A[0] > 6 || !csValid(st.A[3:]) || !foundOK(st.A[3]) {
			return false
		}
		h := F.get(w, st.S[0])
		c1, c2 := bigOf(st.A[7], st.A[8], st.A[9]), bigOf(st.A[10], st.A[11], st.A[12])
		lo, hi := constRange(h)
		if !inBig(c1, lo, hi) {
			return false
		}
		if st.A[0] == 6 && (!inBig(c2, lo, hi) || c1.Cmp(c2) > 0) {
			return false
		}
		if st.A[2] == 1 {
			return F.b64
		}
		return c1.IsInt64() && c2.IsInt64()
	}
	reg(&opDef{name: "bsicmp" + sfx, tag: "C20",
		gen: func(w *World, r *Rng) (Step, bool) {
			i := w.bsiNonEmpty(r, F)
			h := F.get(w, i)
			op := 1 + r.Intn(6)
			c1, c2 := w.genConst(r, h), big.NewInt(0)
			if op == 6 {
				c2 = w.genConst(r, h)
				if c1.Cmp(c2) > 0 {
					c1, c2 = c2, c1
				}
			}
			api := uint64(0)
			if F.b64 && (!c1.IsInt64() || !c2.IsInt64() || r.Chance(1, 3)) {
				api = 1
			}
			a := []uint64{uint64(op), uint64(bsiPars[r.Intn(len(bsiPars))]), api}
			a = append(a, w.genCS(r, F, false)...)
			a = append(a, encBig(c1)...)
			a = append(a, encBig(c2)...)
			return Step{S: []int{i}, A: a}, true
		},
		valid: cmpOK,
		exec: func(w *World, st *Step) {
			h := F.get(w, st.S[0])
			op, par, viaBig := int(st.A[0]), int(st.A[1]), st.A[2] == 1
			fs := csArg(F, h, st.A[3:7])
			c1, c2 := bigOf(st.A[7], st.A[8], st.A[9]), bigOf(st.A[10], st.A[11], st.A[12])
			var want []uint64
			for _, c := range fs.cols {
				if v, ok := h.mget(c); ok && predBSI(op, v, c1, c2) {
					want = append(want, c)
				}
			}
			api := "CompareValue"
			if viaBig {
				api = "CompareBigValue"
			}
			bc := realBitCount(h)
			path := "per-column scan"
			if F.b64 && bc <= 63 && c1.IsInt64() && (op != 6 || c2.IsInt64()) {
				path = "plane algebra"
			}
			w.probe("bsi" + sfx + "-compare-" + path)
			w.probe("bsi" + sfx + "-compare-" + bsiOpNames[op] + "-par" + itoa(par))
			w.probe("bsi" + sfx + "-compare-foundset-" + csNames[st.A[3]])
			if c1.Sign() < 0 {
				w.probe("bsi" + sfx + "-compare-negative-constant")
			}
			F.queried(w, st.S[0])
			w.curOp = "bsicmp" + sfx + ":" + bsiOpNames[op]
			w.queryTwice(fam+" "+api+" "+bsiOpNames[op]+" ("+path+")", func() (colres, string) {
				return h.compare(par, op, c1, c2, viaBig, fs)
			}, want, fs, func() string {
				return fmt.Sprintf("constants %s, %s; parallelism %d; %s; index: %s", c1, c2, par, fs, h.desc())
			})
		}})

	// ------------------------------------------------------------ CompareBSI (64 only)
	if F.b64 {
		reg(&opDef{name: "bsicmpbsi" + sfx, tag: "C20",
			gen: func(w *World, r *Rng) (Step, bool) {
				a := w.bsiNonEmpty(r, F)
				b := w.bsiNonEmpty(r, F)
				return Step{S: []int{a, b}, A: append([]uint64{uint64(1 + r.Intn(5))}, w.genCS(r, F, false)...)}, true
			},
			valid: func(w *World, st *Step) bool {
				return bsiSlotsOK(st, 2, 5) && st.A[0] >= 1 && st.A[0] <= 5 && csValid(st.A[1:]) && foundOK(st.A[1])
			},
			exec: func(w *World, st *Step) {
				a, b := F.get(w, st.S[0]), F.get(w, st.S[1])
				op := int(st.A[0])
				fs := csArg(F, a, st.A[1:5])
				var want []uint64
				for _, c := range fs.cols {
					va, ok1 := a.mget(c)
					vb, ok2 := b.mget(c)
					if ok1 && ok2 && predBSI(op, va, vb, nil) {
						want = append(want, c)
					}
				}
				if realBitCount(a) != realBitCount(b) {
					w.probe("bsi64-comparebsi-different-widths")
				}
				F.queried(w, st.S[0])
				F.queried(w, st.S[1])
				w.curOp = "bsicmpbsi64:" + bsiOpNames[op]
				w.queryTwice("roaring64 CompareBSI "+bsiOpNames[op], func() (colres, string) {
					return a.compareBSI(op, b, fs)
				}, want, fs, func() string {
					return fmt.Sprintf("%s; left: %s; right: %s", fs, a.desc(), b.desc())
				})
			}})
	}

	// ------------------------------------------------------------ BatchEqual / BatchEqualBig / BatchEqualValues
	reg(&opDef{name: "bsibatch" + sfx, tag: "C20",
		gen: func(w *World, r *Rng) (Step, bool) {
			i := w.bsiNonEmpty(r, F)
			api := 0
			if F.b64 {
				api = r.Intn(3)
			}
			a := []uint64{uint64(api), uint64(bsiPars[r.Intn(len(bsiPars))]), uint64(r.Intn(numBatchShapes)), uint64(bsiCounts[r.Intn(len(bsiCounts))]), r.U64()}
			return Step{S: []int{i}, A: append(a, w.genCS(r, F, false)...)}, true
		},
		valid: func(w *World, st *Step) bool {
			if !bsiSlotsOK(st, 1, 9) || st.A[0] > 2 || (!F.b64 && st.A[0] != 0) || !csValid(st.A[5:]) || !foundOK(st.A[5]) {
				return false
			}
			return true
		},
		exec: func(w *World, st *Step) {
			h := F.get(w, st.S[0])
			api, par := int(st.A[0]), int(st.A[1])
			vals := batchVals(h, int(st.A[2]), int(st.A[3]), st.A[4])
			if api != 1 { // int64 entry points: drop what they cannot carry
				k := 0
				for _, v := range vals {
					if v.IsInt64() {
						vals[k] = v
						k++
					}
				}
				vals = vals[:k]
			}
			fs := fsArg{kind: fsNil, cols: h.mcols()}
			if api == 2 {
				fs = csArg(F, h, st.A[5:9])
			}
			var want []uint64
			wanted := map[string]bool{}
			for _, x := range vals {
				wanted[x.String()] = true
			}
			for _, c := range fs.cols {
				if v, ok := h.mget(c); ok && wanted[v.String()] {
					want = append(want, c)
				}
			}
			name := []string{"BatchEqual", "BatchEqualBig", "BatchEqualValues"}[api]
			path := ""
			if F.b64 {
				path = batchPath64(realBitCount(h), api, vals)
			} else {
				path = "trie"
				if len(vals) >= 128 {
					path = "trie-long-list"
					if h.mlen() >= 100000 {
						path = "scan-eligible"
					}
				}
			}
			w.probe("bsi" + sfx + "-batch-" + path)
			if len(want) == 0 {
				w.probe("bsi" + sfx + "-batch-no-match")
			}
			F.queried(w, st.S[0])
			w.curOp = "bsibatch" + sfx + ":" + name
			ctx := func() string {
				show := vals
				if len(show) > 12 {
					show = show[:12]
				}
				return fmt.Sprintf("%d values %v...; path %s; parallelism %d; %s; index: %s", len(vals), show, path, par, fs, h.desc())
			}
			if api != 2 {
				w.queryTwice(fam+" "+name+" ("+path+")", func() (colres, string) {
					res, _, note := h.batchEqual(par, api, vals, fs)
					return res, note
				}, want, fs, ctx)
				return
			}
			var pairs []bsiPair
			var note string
			if w.try("C20", func() { _, pairs, note = h.batchEqual(par, api, vals, fs) }) {
				return
			}
			if note != "" {
				w.fail("C20", "argument-modified", name+" modified the caller's found-set", note+"; "+ctx())
			}
			var got []uint64
			for _, p := range pairs {
				got = append(got, p.col)
				if v, ok := h.mget(p.col); ok && (!v.IsInt64() || v.Int64() != p.val) {
					w.fail("C20", "result", name+" pairs a column with a wrong value", fmt.Sprintf("column %d paired with %d, stored value %s; %s", p.col, p.val, v, ctx()))
					return
				}
			}
			sort.Slice(got, func(i, j int) bool { return got[i] < got[j] })
			for i := 1; i < len(got); i++ {
				if got[i] == got[i-1] {
					w.fail("C20", "result", name+" returned a column twice", fmt.Sprintf("column %d twice; %s", got[i], ctx()))
					return
				}
			}
			if d := diffU64(got, want); d != "" {
				w.fail("C20", "result", name+" wrong", fmt.Sprintf("%s (got %d columns, want %d); %s", d, len(got), len(want), ctx()))
			}
		}})

	// ------------------------------------------------------------ MinMax / MinMaxBig
	minmaxOK := func(w *World, st *Step) bool {
		if !bsiSlotsOK(st, 1, 7) || (st.A[0] != 7 && st.A[0] != 8) || !csValid(st.A[3:]) || !foundOK(st.A[3]) {
			return false
		}
		if st.A[2] == 1 && !F.b64 {
			return false
		}
		h := F.get(w, st.S[0])
		fs := csArg(F, h, st.A[3:7])
		if len(fs.cols) == 0 {
			return false // documented: non-empty sets only
		}
		if st.A[2] == 0 {
			for _, c := range fs.cols {
				if v, _ := h.mget(c); !v.IsInt64() {
					return false
				}
			}
		}
		return true
	}
	reg(&opDef{name: "bsiminmax" + sfx, tag: "C20",
		gen: func(w *World, r *Rng) (Step, bool) {
			i := w.bsiNonEmpty(r, F)
			api := uint64(0)
			if F.b64 {
				api = uint64(r.Intn(2))
			}
			a := []uint64{uint64(7 + r.Intn(2)), uint64(bsiPars[r.Intn(len(bsiPars))]), api}
			st := Step{S: []int{i}, A: append(a, w.genCS(r, F, false)...)}
			if !minmaxOK(w, &st) {
				st.A[2] = 1
			}
			return st, minmaxOK(w, &st)
		},
		valid: minmaxOK,
		exec: func(w *World, st *Step) {
			h := F.get(w, st.S[0])
			op, par, viaBig := int(st.A[0]), int(st.A[1]), st.A[2] == 1
			fs := csArg(F, h, st.A[3:7])
			var want *big.Int
			same := true
			for _, c := range fs.cols {
				v, _ := h.mget(c)
				if want != nil && v.Cmp(want) != 0 {
					same = false
				}
				if want == nil || (op == 7 && v.Cmp(want) < 0) || (op == 8 && v.Cmp(want) > 0) {
					want = v
				}
			}
			if same {
				w.probe("bsi" + sfx + "-minmax-all-values-equal")
			}
			if len(fs.cols) == 1 {
				w.probe("bsi" + sfx + "-minmax-single-column")
			}
			name := "MinMax"
			if viaBig {
				name = "MinMaxBig"
			}
			F.queried(w, st.S[0])
			w.curOp = "bsiminmax" + sfx + ":" + bsiOpNames[op]
			var got *big.Int
			if w.try("C20", func() { got = h.minMax(par, op, viaBig, fs) }) {
				return
			}
			if got == nil || got.Cmp(want) != 0 {
				w.fail("C20", "result", fam+" "+name+" "+bsiOpNames[op]+" wrong", fmt.Sprintf("%s(%s)=%v want %s; parallelism %d; %s; index: %s", name, bsiOpNames[op], got, want, par, fs, h.desc()))
			}
		}})

	// ------------------------------------------------------------ Sum / SumBigValues
	sumOK := func(w *World, st *Step) bool {
		if !bsiSlotsOK(st, 1, 5) || st.A[0] > 1 || (st.A[0] == 1 && !F.b64) || !csValid(st.A[1:]) {
			return false
		}
		if !foundOK(st.A[1]) && st.A[1] != csEmpty {
			return false
		}
		if st.A[0] == 0 {
			h := F.get(w, st.S[0])
			s := new(big.Int)
			for _, c := range csArg(F, h, st.A[1:5]).cols {
				v, _ := h.mget(c)
				s.Add(s, v)
			}
			return s.IsInt64()
		}
		return true
	}
	reg(&opDef{name: "bsisum" + sfx, tag: "C20",
		gen: func(w *World, r *Rng) (Step, bool) {
			i := w.bsiNonEmpty(r, F)
			api := uint64(0)
			if F.b64 {
				api = uint64(r.Intn(2))
			}
			cs := w.genCS(r, F, false)
			if r.Chance(1, 12) {
				cs[0] = csEmpty
			}
			st := Step{S: []int{i}, A: append([]uint64{api}, cs...)}
			if !sumOK(w, &st) {
				st.A[0] = 1
			}
			return st, sumOK(w, &st)
		},
		valid: sumOK,
		exec: func(w *World, st *Step) {
			h := F.get(w, st.S[0])
			viaBig := st.A[0] == 1
			fs := csArg(F, h, st.A[1:5])
			want := new(big.Int)
			for _, c := range fs.cols {
				v, _ := h.mget(c)
				want.Add(want, v)
			}
			name := "Sum"
			if viaBig {
				name = "SumBigValues"
			}
			if !want.IsInt64() {
				w.probe("bsi" + sfx + "-sum-wider-than-int64")
			}
			F.queried(w, st.S[0])
			w.curOp = "bsisum" + sfx + ":" + name
			var got *big.Int
			var cnt uint64
			if w.try("C20", func() { got, cnt = h.sum(viaBig, fs) }) {
				return
			}
			if got == nil || got.Cmp(want) != 0 {
				w.fail("C20", "result", fam+" "+name+" wrong", fmt.Sprintf("%s=%v want %s; %s; index: %s", name, got, want, fs, h.desc()))
			} else if cnt != uint64(len(fs.cols)) {
				w.fail("C20", "result", fam+" "+name+" count wrong", fmt.Sprintf("%s count=%d want %d; %s; index: %s", name, cnt, len(fs.cols), fs, h.desc()))
			}
		}})

	// ------------------------------------------------------------ Transpose / IntersectAndTranspose / TransposeWithCounts
	// values become column ids: only non-negative values that are column ids of the family
	transOK := func(w *World, st *Step) bool {
		if !bsiSlotsOK(st, 1, 8) || st.A[0] > 2 || !csValid(st.A[2:]) || !foundOK(st.A[2]) {
			return false
		}
		h := F.get(w, st.S[0])
		cols := csArg(F, h, st.A[2:6]).cols
		if st.A[0] == 0 {
			cols = h.mcols()
		}
		for _, c := range cols {
			v, _ := h.mget(c)
			if v.Sign() < 0 || !v.IsInt64() || !F.colOK(v.Uint64()) {
				return false
			}
		}
		return true
	}
	reg(&opDef{name: "bsitrans" + sfx, tag: "C20",
		gen: func(w *World, r *Rng) (Step, bool) {
			i := w.bsiNonEmpty(r, F)
			a := []uint64{uint64(r.Intn(3)), uint64(bsiPars[r.Intn(len(bsiPars))])}
			a = append(a, w.genCS(r, F, false)...)
			a = append(a, uint64(r.Intn(3)), r.U64())
			st := Step{S: []int{i}, A: a}
			return st, transOK(w, &st)
		},
		valid: transOK,
		exec: func(w *World, st *Step) {
			h := F.get(w, st.S[0])
			api, par := int(st.A[0]), int(st.A[1])
			fs := csArg(F, h, st.A[2:6])
			if api == 0 {
				fs = fsArg{kind: fsNil, cols: h.mcols()}
			}
			counts := map[uint64]int64{}
			for _, c := range fs.cols {
				v, _ := h.mget(c)
				counts[v.Uint64()]++
			}
			var vals []uint64
			for v := range counts {
				vals = append(vals, v)
			}
			vals = sortedU64(vals)
			name := []string{"Transpose", "IntersectAndTranspose", "TransposeWithCounts"}[api]
			F.queried(w, st.S[0])
			w.curOp = "bsitrans" + sfx + ":" + name
			ctx := func() string { return fmt.Sprintf("parallelism %d; %s; index: %s", par, fs, h.desc()) }
			if api < 2 {
				// the result lives in value space: the found-set does not bound it
				all := fsArg{kind: fs.kind, cols: vals}
				w.queryTwice(fam+" "+name, func() (colres, string) { return h.transpose(api, par, fs) }, vals, all, ctx)
				return
			}
			// filter (64-bit only): every value, or a subset of the values plus strangers
			filter := vals
			if F.b64 && st.A[6] != 0 {
				r := NewRng(st.A[7])
				filter = nil
				for _, v := range vals {
					if r.Bool() {
						filter = append(filter, v)
					}
				}
				filter = sortedU64(append(filter, r.U64(), uint64(r.Intn(1000))))
				w.probe("bsi64-transposewithcounts-partial-filter")
			}
			var res bsiH
			if w.try("C20", func() { res = h.transposeCounts(par, fs, filter) }) {
				return
			}
			if res == nil {
				w.fail("C20", "nil-result", name+" returned nil", ctx())
				return
			}
			for _, v := range vals {
				if !F.b64 || hasU64(filter, v) {
					res.mput(v, big.NewInt(counts[v]))
					if counts[v] > 1 {
						w.probe("bsi" + sfx + "-transposewithcounts-repeated-value")
					}
				}
			}
			if ok, class, d := chkBSI(res); !ok {
				w.fail("C20", "result", fam+" "+name+" wrong: "+class, fmt.Sprintf("%s: %s; result %s; %s", name, d, res.desc(), ctx()))
			}
		}})
}

func init() {
	for _, F := range []*bsiFam{fam64, fam32} {
		regBSIUpdates(F)
		regBSIQueries(F)
	}
	regBSIScenarios()
}

// ---------------------------------------------------------------- scenarios

// bsiscan32 builds, queries and discards one large BitSliceIndexing index: the
// only way to reach the parallel scan of BatchEqual (>= 128 scattered values and
// >= 100000 columns). It emits ordinary steps.
func regBSIScenarios() {
	reg(&opDef{name: "bsiscan32", tag: "C20",
		gen: func(w *World, r *Rng) (Step, bool) {
			i := w.bsiSlot(r)
			base := uint64(r.Intn(3)) * 65536
			n := uint64(100000 + r.Intn(3000))
			v := big.NewInt(int64(1<<20 + r.Intn(1<<20)))
			regime := uint64(r.Intn(2)) // 1 = non-negative values only; 0 = mixed signs (a 64-plane index)
			if regime == 0 && r.Bool() {
				v.Neg(v)
			}
			steps := []Step{
				{Op: "bsinew32", S: []int{i}, A: []uint64{0, 0, 0, regime}},
				{Op: "bsisetmany32", S: []int{i}, A: append([]uint64{csRun, base, n, r.U64()}, encBig(v)...)},
				{Op: "bsifill32", S: []int{i}, A: []uint64{csSparse, base, 500, r.U64(), 1, 21, r.U64()}},
				{Op: "bsibatch32", S: []int{i}, A: []uint64{0, uint64(bsiPars[r.Intn(len(bsiPars))]), 4, 200, r.U64(), csNil, 0, 0, 0}},
				{Op: "bsibatch32", S: []int{i}, A: []uint64{0, uint64(bsiPars[r.Intn(len(bsiPars))]), 4, 300, r.U64(), csNil, 0, 0, 0}},
				{Op: "bsinew32", S: []int{i}, A: []uint64{0, 0, 0, 0}},
			}
			w.pending = append(w.pending, steps[1:]...)
			return steps[0], true
		},
		exec: func(w *World, st *Step) {}})
}
