package world

import (
	"fmt"
	"sort"

	"github.com/RoaringBitmap/roaring/v2"
)

// Cursor is an open iterator pinned to a bitmap, with the model sequence it must produce.
type Cursor struct {
	Kind  int // 0 forward, 1 reverse, 2 many, 3 unset
	Slot  int
	fwd   roaring.IntPeekable
	rev   roaring.IntIterable
	many  roaring.ManyIntIterable
	elems []uint32
	pos   int
}

const numCursors = 4

var curKindNames = []string{"Iterator", "ReverseIterator", "ManyIterator", "UnsetIterator"}

// complement lists the integers of [a,b) absent from the model (b-a <= 2^21).
func (w *World) complement(slot int, a, b uint64) []uint32 {
	m := w.B[slot].M
	out := make([]uint32, 0, 1024)
	for x := a; x < b; x++ {
		if !m.Contains(uint32(x)) {
			out = append(out, uint32(x))
		}
	}
	return out
}

// windowArgs picks an unset window: mid-chunk starts, gap keys, ends at 2^32.
func (w *World) windowArgs(r *Rng, slot int) (uint64, uint64) {
	var a uint64
	o := w.B[slot]
	if ks := o.M.Keys(); len(ks) > 0 && r.Chance(3, 4) {
		k := uint64(ks[r.Intn(len(ks))])
		switch r.Intn(4) {
		case 0:
			a = k << 16
		case 1:
			a = k<<16 | uint64(low(r))
		case 2: // start in the gap before
			if k > 0 {
				a = (k-1)<<16 | uint64(low(r))
			}
		default:
			a = k<<16 | uint64(r.Intn(65536))
		}
	} else {
		a = uint64(w.key(r))<<16 | uint64(low(r))
	}
	var l uint64
	switch r.Intn(6) {
	case 0:
		l = uint64(r.Intn(3))
	case 1:
		l = 65536 - a&0xFFFF
	case 2:
		l = 65536
	case 3:
		l = uint64(r.Intn(1 << 18))
	case 4:
		l = uint64(65536 + r.Intn(65536*3))
	default:
		if a < 1<<32-1<<19 {
			a = 1<<32 - uint64(r.Intn(1<<19)) - 1
		}
		l = 1<<32 - a
	}
	b := a + l
	if b > 1<<32 {
		b = 1 << 32
	}
	if b-a > 1<<20 {
		b = a + 1<<20
	}
	return a, b
}

func init() {
	reg(&opDef{name: "cur-open", tag: "C04",
		gen: func(w *World, r *Rng) (Step, bool) {
			s := w.nonEmptySlot(r)
			kind := r.Intn(4)
			a, b := uint64(0), uint64(0)
			if kind == 3 {
				a, b = w.windowArgs(r, s)
			}
			ci := r.Intn(numCursors)
			reuse := uint64(0)
			// re-target an existing iterator object of the same kind, wherever it stopped, with
			// its public Initialize method instead of asking the bitmap for a new one
			if r.Bool() {
				for off := 0; off < numCursors; off++ {
					j := (ci + off) % numCursors
					if c := w.X.Cur[j]; c != nil && c.Kind == kind && kind != 3 {
						ci, reuse = j, 1
						break
					}
				}
			}
			return Step{S: []int{s}, A: []uint64{uint64(ci), uint64(kind), a, b, reuse}}, true
		},
		valid: func(w *World, st *Step) bool {
			return slotsOK(w, st, 1, 4) && st.A[0] < numCursors && st.A[1] < 4 && st.A[2] <= st.A[3] && st.A[3] <= 1<<32 && st.A[3]-st.A[2] <= 1<<20 && (st.A[1] == 3 || !w.giant(st.S[0]))
		},
		exec: func(w *World, st *Step) {
			o := w.B[st.S[0]]
			c := &Cursor{Kind: int(st.A[1]), Slot: st.S[0]}
			var old *Cursor
			if len(st.A) >= 5 && st.A[4] == 1 {
				if oc := w.X.Cur[st.A[0]]; oc != nil && oc.Kind == c.Kind {
					old = oc
				}
			}
			reused := false
			if old != nil && w.try("C04", func() {
				switch c.Kind {
				case 0:
					if it, ok := old.fwd.(*roaring.IntIterator); ok {
						it.Initialize(o.BM)
						c.fwd, c.elems, reused = it, o.M.Slice(), true
					}
				case 1:
					if it, ok := old.rev.(*roaring.IntReverseIterator); ok {
						it.Initialize(o.BM)
						e := o.M.Slice()
						for i, j := 0, len(e)-1; i < j; i, j = i+1, j-1 {
							e[i], e[j] = e[j], e[i]
						}
						c.rev, c.elems, reused = it, e, true
					}
				case 2:
					if it, ok := old.many.(*roaring.ManyIntIterator); ok {
						it.Initialize(o.BM)
						c.many, c.elems, reused = it, o.M.Slice(), true
					}
				}
			}) {
				return
			}
			if reused {
				w.probe("iterator-object-reinitialized-" + curKindNames[c.Kind])
				if old.pos > 0 && old.pos < len(old.elems) {
					w.probe("iterator-object-reinitialized-midway")
				}
				w.X.Cur[st.A[0]] = c
				return
			}
			if w.try("C04", func() {
				switch c.Kind {
				case 0:
					c.fwd = o.BM.Iterator()
					c.elems = o.M.Slice()
				case 1:
					c.rev = o.BM.ReverseIterator()
					e := o.M.Slice()
					for i, j := 0, len(e)-1; i < j; i, j = i+1, j-1 {
						e[i], e[j] = e[j], e[i]
					}
					c.elems = e
				case 2:
					c.many = o.BM.ManyIterator()
					c.elems = o.M.Slice()
				default:
					c.fwd = o.BM.UnsetIterator(st.A[2], st.A[3])
					c.elems = w.complement(st.S[0], st.A[2], st.A[3])
					if st.A[3] == 1<<32 {
						w.probe("unset-window-ends-at-2^32")
					}
					if st.A[2]&0xFFFF != 0 {
						w.probe("unset-window-starts-mid-chunk")
					}
				}
			}) {
				return
			}
			w.X.Cur[st.A[0]] = c
		}})
	reg(&opDef{name: "cur-step", tag: "C04",
		gen: func(w *World, r *Rng) (Step, bool) {
			var live []int
			for i, c := range w.X.Cur {
				if c != nil {
					live = append(live, i)
				}
			}
			if len(live) == 0 {
				return Step{}, false
			}
			ci := live[r.Intn(len(live))]
			c := w.X.Cur[ci]
			action := r.Intn(3)
			var arg uint64
			switch {
			case c.Kind == 2:
				action = 3
				arg = uint64([]int{0, 1, 2, 3, 7, 64, 100, 1000, 4096, 5000, 65536, 70000}[r.Intn(12)])
				if r.Chance(1, 4) {
					arg |= uint64(1+r.Intn(1000)) << 32
				}
			case c.Kind == 1:
				action = 0
				arg = uint64(1 + r.Intn(6))
			case action == 0:
				arg = uint64(1 + r.Intn(6))
				if r.Chance(1, 5) {
					arg = uint64(count(r))
				}
			case action == 2:
				// m below, at, inside a gap, beyond
				if c.pos < len(c.elems) {
					cur := uint64(c.elems[c.pos])
					switch r.Intn(7) {
					case 0:
						arg = cur
					case 1:
						arg = cur + 1
					case 2:
						if cur > 0 {
							arg = cur - uint64(1+r.Intn(100))%cur
						}
					case 3:
						j := c.pos + r.Intn(len(c.elems)-c.pos)
						arg = uint64(c.elems[j])
					case 4:
						j := c.pos + r.Intn(len(c.elems)-c.pos)
						arg = uint64(c.elems[j]) + 1 + uint64(r.Intn(70000))
					case 5:
						arg = (cur>>16 + 1 + uint64(r.Intn(3))) << 16 // a later chunk, maybe a gap key
					default:
						arg = uint64(c.elems[len(c.elems)-1]) + uint64(r.Intn(3))
					}
					if arg > 0xFFFFFFFF {
						arg = 0xFFFFFFFF
					}
				}
			}
			return Step{A: []uint64{uint64(ci), uint64(action), arg}}, true
		},
		valid: func(w *World, st *Step) bool {
			if len(st.A) < 3 || st.A[0] >= numCursors || w.X.Cur[st.A[0]] == nil {
				return false
			}
			c := w.X.Cur[st.A[0]]
			switch st.A[1] {
			case 0:
				return c.Kind != 2
			case 1, 2:
				return c.Kind == 0 || c.Kind == 3
			case 3:
				return c.Kind == 2 && st.A[2]&0xFFFFFFFF <= 1<<17
			}
			return false
		},
		exec: execCurStep})
	reg(&opDef{name: "iterfn", tag: "C04",
		gen: func(w *World, r *Rng) (Step, bool) {
			s := w.nonEmptySlot(r)
			which := r.Intn(5)
			stop := uint64(1 << 40)
			if r.Chance(1, 2) {
				stop = uint64(r.Intn(50))
				if r.Chance(1, 3) {
					stop = uint64(count(r))
				}
				if r.Chance(1, 3) && w.B[s].M.Card() < 300000 {
					// stop exactly on the last value of a run of consecutive values (ascending consumers),
					// or on the first value of one (descending)
					el := w.B[s].M.Slice()
					var ends []int
					for i := range el {
						if i+1 == len(el) || el[i+1] != el[i]+1 {
							ends = append(ends, i)
						}
					}
					if len(ends) > 0 {
						stop = uint64(ends[r.Intn(len(ends))])
						if which == 2 {
							stop = uint64(len(el) - 1 - ends[r.Intn(len(ends))])
						}
					}
				}
			}
			a, b := uint64(0), uint64(0)
			if which == 3 {
				a, b = w.windowArgs(r, s)
				if b == a {
					b = a + 1
				}
			}
			return Step{S: []int{s}, A: []uint64{uint64(which), stop, a, b}}, true
		},
		valid: func(w *World, st *Step) bool {
			return slotsOK(w, st, 1, 4) && st.A[0] < 5 && (st.A[0] != 3 || (st.A[2] < st.A[3] && st.A[3] <= 1<<32 && st.A[3]-st.A[2] <= 1<<20)) && (st.A[0] == 3 || st.A[0] == 4 || !w.giant(st.S[0]))
		},
		exec: execIterFn})
}

func execCurStep(w *World, st *Step) {
	c := w.X.Cur[st.A[0]]
	name := curKindNames[c.Kind]
	bad := func(class, detail string) {
		w.fail("C04", "cursor", name+": "+class, fmt.Sprintf("%s over slot %d at position %d/%d: %s", name, c.Slot, c.pos, len(c.elems), detail))
		w.X.Cur[st.A[0]] = nil
	}
	if w.try("C04", func() {
		switch st.A[1] {
		case 0:
			for i := uint64(0); i < st.A[2]; i++ {
				var has bool
				if c.Kind == 1 {
					has = c.rev.HasNext()
				} else {
					has = c.fwd.HasNext()
				}
				if has != (c.pos < len(c.elems)) {
					bad("HasNext wrong", fmt.Sprintf("HasNext=%v", has))
					return
				}
				if !has {
					return
				}
				var v uint32
				if c.Kind == 1 {
					v = c.rev.Next()
				} else {
					v = c.fwd.Next()
				}
				if v != c.elems[c.pos] {
					bad("Next wrong", fmt.Sprintf("Next=%d want %d", v, c.elems[c.pos]))
					return
				}
				c.pos++
			}
		case 1:
			if c.pos >= len(c.elems) {
				if c.fwd.HasNext() {
					bad("HasNext wrong", "HasNext=true at the end")
				}
				return
			}
			if !c.fwd.HasNext() {
				bad("HasNext wrong", "HasNext=false before the end")
				return
			}
			if v := c.fwd.PeekNext(); v != c.elems[c.pos] {
				bad("PeekNext wrong", fmt.Sprintf("PeekNext=%d want %d", v, c.elems[c.pos]))
				return
			}
			if v := c.fwd.PeekNext(); v != c.elems[c.pos] {
				bad("PeekNext advanced", fmt.Sprintf("second PeekNext=%d want %d", v, c.elems[c.pos]))
			}
		case 2:
			if c.pos >= len(c.elems) {
				return
			}
			m := uint32(st.A[2])
			c.fwd.AdvanceIfNeeded(m)
			np := c.pos + sort.Search(len(c.elems)-c.pos, func(i int) bool { return c.elems[c.pos+i] >= m })
			if m <= c.elems[c.pos] {
				w.probe("advance-not-needed")
			} else if np < len(c.elems) && c.elems[np]>>16 != m>>16 {
				w.probe("advance-into-gap")
			}
			c.pos = np
			has := c.fwd.HasNext()
			if has != (c.pos < len(c.elems)) {
				bad("AdvanceIfNeeded wrong", fmt.Sprintf("after AdvanceIfNeeded(%d): HasNext=%v", m, has))
				return
			}
			if has {
				if v := c.fwd.PeekNext(); v != c.elems[c.pos] {
					bad("AdvanceIfNeeded wrong", fmt.Sprintf("after AdvanceIfNeeded(%d): PeekNext=%d want %d", m, v, c.elems[c.pos]))
				}
			}
		case 3:
			buf := make([]uint32, st.A[2]&0xFFFFFF)
			var n int
			if st.A[2]>>32 != 0 {
				// the 64-bit flavour: values are OR-ed with a high mask
				hs := (st.A[2] >> 32) << 32
				b64 := make([]uint64, len(buf))
				n = c.many.NextMany64(hs, b64)
				for i := 0; i < n && i < len(b64); i++ {
					if b64[i]&^0xFFFFFFFF != hs {
						bad("NextMany64 mask wrong", fmt.Sprintf("value %#x does not carry the mask %#x", b64[i], hs))
						return
					}
					buf[i] = uint32(b64[i])
				}
				w.probe("nextmany64")
			} else {
				n = c.many.NextMany(buf)
			}
			if n < 0 || n > len(buf) || c.pos+n > len(c.elems) {
				bad("NextMany count wrong", fmt.Sprintf("NextMany(len %d)=%d with %d remaining", len(buf), n, len(c.elems)-c.pos))
				return
			}
			if n == 0 && len(buf) > 0 && c.pos < len(c.elems) {
				bad("NextMany stalls", fmt.Sprintf("NextMany(len %d)=0 with %d remaining", len(buf), len(c.elems)-c.pos))
				return
			}
			for i := 0; i < n; i++ {
				if buf[i] != c.elems[c.pos+i] {
					bad("NextMany wrong", fmt.Sprintf("value %d of batch: %d want %d", i, buf[i], c.elems[c.pos+i]))
					return
				}
			}
			if n > 0 && c.pos+n < len(c.elems) && c.elems[c.pos]>>16 != c.elems[c.pos+n-1]>>16 {
				w.probe("nextmany-straddles-chunks")
			}
			c.pos += n
		}
	}) {
		w.X.Cur[st.A[0]] = nil
	}
}

func execIterFn(w *World, st *Step) {
	o := w.B[st.S[0]]
	stop := st.A[1]
	var want []uint32
	var got []uint32
	name := []string{"Iterate", "Values", "Backward", "Unset", "Ranges"}[st.A[0]]
	calls := uint64(0)
	if w.try("C04", func() {
		switch st.A[0] {
		case 0:
			want = o.M.Slice()
			o.BM.Iterate(func(x uint32) bool {
				got = append(got, x)
				calls++
				return calls <= stop
			})
		case 1, 2:
			want = o.M.Slice()
			seq := roaring.Values(o.BM)
			if st.A[0] == 2 {
				for i, j := 0, len(want)-1; i < j; i, j = i+1, j-1 {
					want[i], want[j] = want[j], want[i]
				}
				seq = roaring.Backward(o.BM)
			}
			for x := range seq {
				got = append(got, x)
				calls++
				if calls > stop {
					break
				}
			}
			// the sequence value is a description of the walk, not a cursor: walking it again
			// (after a complete or an abandoned walk, or from inside a walk) starts afresh
			k := 0
			for x := range seq {
				if k >= len(want) || x != want[k] {
					w.fail("C04", "sequence", name+": second walk over the same sequence value differs", fmt.Sprintf("%s: value #%d of the second walk is %d (first walk stopped after %d of %d)", name, k, x, len(got), len(want)))
					return
				}
				k++
				if k >= 200 {
					break
				}
			}
			if k < len(want) && k < 200 {
				w.fail("C04", "sequence", name+": second walk over the same sequence value differs", fmt.Sprintf("%s: the second walk delivered %d of %d values (first walk stopped after %d)", name, k, len(want), len(got)))
				return
			}
			if n := len(want); n > 0 && n <= 40 {
				pairs := 0
				for range seq {
					for range seq {
						pairs++
					}
				}
				if pairs != n*n {
					w.fail("C04", "sequence", name+": nested walks over one sequence value interfere", fmt.Sprintf("%s: %d pairs from a set of %d", name, pairs, n))
					return
				}
				w.probe("sequence-nested-walk")
			}
		case 3:
			want = w.complement(st.S[0], st.A[2], st.A[3])
			for x := range roaring.Unset(o.BM, uint32(st.A[2]), uint32(st.A[3]-1)) {
				got = append(got, x)
				calls++
				if calls > stop {
					break
				}
			}
		default:
			// Ranges: maximal, disjoint, non-adjacent, union = set
			var prevEnd uint64
			first := true
			var total uint64
			for s, e := range o.BM.Ranges() {
				calls++
				if uint64(s) >= e || e > 1<<32 {
					w.fail("C04", "ranges", "Ranges: empty or out-of-range interval", fmt.Sprintf("[%d,%d)", s, e))
					return
				}
				if !first && uint64(s) <= prevEnd {
					w.fail("C04", "ranges", "Ranges: intervals overlap, touch or are out of order", fmt.Sprintf("[%d,%d) after an interval ending at %d", s, e, prevEnd))
					return
				}
				if o.M.CountRange(uint64(s), e) != e-uint64(s) {
					w.fail("C04", "ranges", "Ranges: interval contains absent values", fmt.Sprintf("[%d,%d)", s, e))
					return
				}
				if (s > 0 && o.M.Contains(s-1)) || (e < 1<<32 && o.M.Contains(uint32(e))) {
					w.fail("C04", "ranges", "Ranges: interval not maximal", fmt.Sprintf("[%d,%d)", s, e))
					return
				}
				if e-uint64(s) > 65536 || (uint64(s)>>16 != (e-1)>>16) {
					w.probe("ranges-merged-across-chunks")
				}
				total += e - uint64(s)
				prevEnd, first = e, false
				if calls > stop {
					return
				}
			}
			if total != o.M.Card() {
				w.fail("C04", "ranges", "Ranges: union differs from the bitmap", fmt.Sprintf("covered %d values, bitmap has %d", total, o.M.Card()))
			}
			return
		}
	}) {
		return
	}
	if st.A[0] == 4 {
		return
	}
	// the consumer stopped after stop+1 deliveries (or never)
	exp := want
	if uint64(len(exp)) > stop+1 {
		exp = exp[:stop+1]
		w.probe("early-stop")
	}
	if len(got) != len(exp) {
		w.fail("C04", "sequence", name+": wrong number of values", fmt.Sprintf("%s delivered %d values, want %d (stop after %d)", name, len(got), len(exp), stop))
		return
	}
	for i := range exp {
		if got[i] != exp[i] {
			w.fail("C04", "sequence", name+": wrong value", fmt.Sprintf("%s value %d: %d want %d", name, i, got[i], exp[i]))
			return
		}
	}
}
