package world

// Scenario generators: they emit ordinary concrete steps (no new operations),
// but compute their arguments from the model so that rare conditions are hit on
// purpose: a chunk brought to exactly 4095/4096/4097 values, a chosen pairing of
// chunk kinds with content anchored at chunk and word boundaries.

func init() {
	// thresh: bring one chunk of one bitmap to a threshold cardinality
	reg(&opDef{name: "thresh", tag: "C02",
		gen: func(w *World, r *Rng) (Step, bool) {
			b := w.nonEmptySlot(r)
			o := w.B[b]
			ks := o.M.Keys()
			if len(ks) == 0 {
				return Step{}, false
			}
			k := ks[r.Intn(len(ks))]
			T := []int{4095, 4096, 4097, 4096, 1, 65535}[r.Intn(6)]
			// an array chunk whose backing array has room beyond 4096 values (left behind by an in-place
			// union, or by growth) is the interesting one for "just above the threshold"
			if r.Bool() {
				func() {
					defer func() { recover() }()
					for off := 0; off < len(w.B); off++ {
						sl := (b + off) % len(w.B)
						for _, c := range w.B[sl].BM.VerifChunks() {
							if c.Kind == 1 && c.Cap > 4097 && !c.NeedCOW && T <= 4097 {
								b, o = sl, w.B[sl]
								k = c.Key
								T = 4097 + r.Intn(c.Cap-4097+1)
								if T > 4400 {
									T = 4097 + r.Intn(300)
								}
								w.probe("thresh-array-with-spare-capacity")
								return
							}
						}
					}
				}()
			}
			c := o.M.ChunkCard(k)
			words := o.M.ChunkWords(k)
			if words == nil {
				return Step{}, false
			}
			base := uint64(k) << 16
			has := func(i int) bool { return words[i>>6]&(1<<(uint(i)&63)) != 0 }
			switch {
			case c > T && T >= 1:
				// remove a suffix or a prefix so that exactly T values remain
				if r.Bool() {
					n := 0
					for i := 0; i < 65536; i++ {
						if has(i) {
							n++
							if n == T+1 {
								w.probe("thresh-remove-suffix-to-" + itoa(T))
								return Step{Op: "removerange", S: []int{b}, A: []uint64{base + uint64(i), base + 65536}}, true
							}
						}
					}
				} else {
					n := 0
					for i := 65535; i >= 0; i-- {
						if has(i) {
							n++
							if n == T+1 {
								w.probe("thresh-remove-prefix-to-" + itoa(T))
								return Step{Op: "removerange", S: []int{b}, A: []uint64{base, base + uint64(i) + 1}}, true
							}
						}
					}
				}
			case c < T && r.Chance(1, 3):
				// flip a window that holds no value yet and is exactly as long as what is missing
				need := T - c
				run := 0
				from := r.Intn(65536)
				for n := 0; n < 65536; n++ {
					i := (from + n) % 65536
					if i == 0 {
						run = 0
					}
					if has(i) {
						run = 0
						continue
					}
					run++
					if run == need {
						w.probe("thresh-flip-to-" + itoa(T))
						return Step{Op: "flip", S: []int{b}, A: []uint64{base + uint64(i-need+1), base + uint64(i) + 1}}, true
					}
				}
			case c < T:
				// add a range whose absent members number exactly T-c
				start := r.Intn(65536)
				if r.Chance(1, 3) {
					start = 0
				}
				need := T - c
				n := 0
				for i := start; i < 65536; i++ {
					if !has(i) {
						n++
						if n == need {
							w.probe("thresh-add-to-" + itoa(T))
							return Step{Op: "addrange", S: []int{b}, A: []uint64{base + uint64(start), base + uint64(i) + 1}}, true
						}
					}
				}
			case c == T && c > 1:
				// step across the threshold with point operations
				for i := r.Intn(65536); i < 65536; i++ {
					if has(i) {
						return Step{Op: "remove", S: []int{b}, A: []uint64{base + uint64(i), uint64(r.Intn(2))}}, true
					}
				}
			}
			return Step{}, false
		},
		exec: func(w *World, st *Step) {}})

	// pair: build two operands with chosen chunk kinds on one key, then combine them
	reg(&opDef{name: "pair", tag: "C01",
		gen: func(w *World, r *Rng) (Step, bool) {
			a, b := w.slot(r), w.slot(r)
			if a == b {
				b = (a + 1) % len(w.B)
			}
			k := w.key(r)
			var steps []Step
			steps = append(steps, w.kindSteps(r, a, k)...)
			steps = append(steps, w.kindSteps(r, b, k)...)
			if r.Chance(1, 4) {
				steps = append(steps, Step{Op: "setcow", S: []int{[]int{a, b}[r.Intn(2)]}, A: []uint64{1}})
				steps = append(steps, Step{Op: "clone", S: []int{(b + 1 + r.Intn(len(w.B)-1)) % len(w.B), a}})
			}
			op := uint64(r.Intn(4))
			switch r.Intn(5) {
			case 0:
				steps = append(steps, Step{Op: "binop", S: []int{w.slot(r), a, b}, A: []uint64{op}})
			case 1:
				steps = append(steps, Step{Op: "card", S: []int{a, b}, A: []uint64{uint64(r.Intn(3))}})
				steps = append(steps, Step{Op: "ibinop", S: []int{a, b}, A: []uint64{op}})
			default:
				steps = append(steps, Step{Op: "ibinop", S: []int{a, b}, A: []uint64{op}})
			}
			w.pending = append(w.pending, steps[1:]...)
			w.probe("pair-scenario")
			return steps[0], true
		},
		exec: func(w *World, st *Step) {}})
}

func init() {
	// cowclone: turn copy-on-write on and clone, so that both bitmaps hold flagged, shared chunks
	reg(&opDef{name: "cowclone", tag: "C02",
		gen: func(w *World, r *Rng) (Step, bool) {
			a := w.nonEmptySlot(r)
			if w.B[a].ZeroCopy {
				return Step{}, false
			}
			b := (a + 1 + r.Intn(len(w.B)-1)) % len(w.B)
			w.pending = append(w.pending, Step{Op: "clone", S: []int{b, a}})
			w.probe("cowclone-scenario")
			return Step{Op: "setcow", S: []int{a}, A: []uint64{1}}, true
		},
		exec: func(w *World, st *Step) {}})
}

func init() {
	// parlist: build a list of bitmaps over a small common key set (each member holds a
	// random subset of the keys, in varied chunk kinds, some members sharing flagged
	// chunks with a copy-on-write clone), then aggregate it.
	reg(&opDef{name: "parlist", tag: "C11",
		gen: func(w *World, r *Rng) (Step, bool) {
			nk := 3 + r.Intn(6)
			base := w.key(r)
			if r.Chance(1, 3) {
				base = uint16(0xFFFF - nk - r.Intn(3)) // the top of the key space
			}
			var keys []uint16
			k := base
			for i := 0; i < nk; i++ {
				keys = append(keys, k)
				k += uint16(1 + r.Intn(3))
				if k < base {
					break
				}
			}
			// one time in six the members are wide: a value in each of 70..150 consecutive chunks
			// below the chosen keys (the bulk paths of the merges start at 64 keys)
			// (decided from the base key, not from a fresh draw: the other five sixths of the
			// scenarios stay exactly what they were)
			wideN := uint64(0)
			if h := uint64(base) * 2654435761; (h>>9)%6 == 0 && base > 200 {
				wideN = 70 + (h>>20)%80
			}
			m := 3 + r.Intn(len(w.B)-3)
			perm := make([]int, len(w.B))
			for i := range perm {
				perm[i] = i
			}
			for i := len(perm) - 1; i > 0; i-- {
				j := r.Intn(i + 1)
				perm[i], perm[j] = perm[j], perm[i]
			}
			members := perm[:m]
			var steps []Step
			for _, b := range members {
				steps = append(steps, Step{Op: "clear", S: []int{b}})
				if wideN > 0 {
					steps = append(steps, Step{Op: "addmany", S: []int{b}, A: []uint64{uint64(base) - wideN - uint64(b*7), 7, wideN, uint64(base)*31 + uint64(b)}})
				}
				for _, key := range keys {
					if r.Chance(1, 2) {
						steps = append(steps, w.kindSteps(r, b, key)...)
					}
				}
				if r.Chance(1, 2) && m < len(w.B) {
					steps = append(steps, Step{Op: "setcow", S: []int{b}, A: []uint64{1}}, Step{Op: "clone", S: []int{perm[m+r.Intn(len(w.B)-m)], b}})
				}
			}
			list := append([]int(nil), members...)
			for i := len(list) - 1; i > 0; i-- {
				j := r.Intn(i + 1)
				list[i], list[j] = list[j], list[i]
			}
			if w.Cfg.Profile == "C12" || r.Chance(1, 3) {
				steps = append(steps, Step{Op: "parcmp", S: list, A: []uint64{uint64([]int{0, 0, 1, 2}[r.Intn(4)]), r.U64(), uint64(4 + r.Intn(5))}})
			} else {
				dst := perm[len(perm)-1]
				steps = append(steps, Step{Op: "agg", S: append([]int{dst}, list...), A: []uint64{uint64(r.Intn(7)), uint64(workerPool[r.Intn(len(workerPool))])}})
			}
			if wideN > 0 {
				w.probe("parlist-scenario-wide")
			}
			w.pending = append(w.pending, steps[1:]...)
			w.probe("parlist-scenario")
			return steps[0], true
		},
		exec: func(w *World, st *Step) {}})
}

func init() {
	// erode: nibble at the edges of the runs of one run-encoded chunk with point removals
	// (and a few point additions that extend or bridge runs), so that the chunk's
	// cheapest representation changes without any run being split
	reg(&opDef{name: "erode", tag: "C02",
		gen: func(w *World, r *Rng) (Step, bool) {
			b := w.nonEmptySlot(r)
			o := w.B[b]
			var key uint16
			found := false
			func() {
				defer func() { recover() }()
				var cands []uint16
				for _, c := range o.BM.VerifChunks() {
					if c.Kind == 2 && c.Runs >= 6 {
						cands = append(cands, c.Key)
					}
				}
				if len(cands) > 0 {
					key, found = cands[r.Intn(len(cands))], true
				}
			}()
			if !found {
				// make one: many short runs, run-optimised
				k := w.key(r)
				w.pending = append(w.pending, Step{Op: "runopt", S: []int{b}})
				return Step{Op: "addmany", S: []int{b}, A: []uint64{uint64(k), 6, uint64(24 + r.Intn(300)), r.U64()}}, true
			}
			words := o.M.ChunkWords(key)
			if words == nil {
				return Step{}, false
			}
			has := func(i int) bool { return i >= 0 && i < 65536 && words[i>>6]&(1<<(uint(i)&63)) != 0 }
			base := uint64(key) << 16
			var steps []Step
			variant := uint64(r.Intn(2))
			for i := 0; i < 65536 && len(steps) < 160; i++ {
				if !has(i) {
					continue
				}
				// i starts a run; find its end
				j := i
				for has(j + 1) {
					j++
				}
				switch {
				case j > i && j-i <= 6 && r.Chance(3, 4): // wear a short run down to one value, always from an end
					lo, hi := i, j
					for hi > lo && len(steps) < 160 {
						if r.Bool() {
							steps = append(steps, Step{Op: "remove", S: []int{b}, A: []uint64{base + uint64(hi), variant}})
							hi--
						} else {
							steps = append(steps, Step{Op: "remove", S: []int{b}, A: []uint64{base + uint64(lo), variant}})
							lo++
						}
					}
				case j > i && r.Chance(1, 2): // shrink from one end, the run survives
					if r.Bool() {
						steps = append(steps, Step{Op: "remove", S: []int{b}, A: []uint64{base + uint64(j), variant}})
					} else {
						steps = append(steps, Step{Op: "remove", S: []int{b}, A: []uint64{base + uint64(i), variant}})
					}
				case r.Chance(1, 6) && j+1 < 65536: // extend
					steps = append(steps, Step{Op: "add", S: []int{b}, A: []uint64{base + uint64(j+1), uint64(r.Intn(3))}})
				}
				i = j + 1
			}
			if len(steps) == 0 {
				return Step{}, false
			}
			w.pending = append(w.pending, steps[1:]...)
			w.probe("erode-scenario")
			return steps[0], true
		},
		exec: func(w *World, st *Step) {}})
}

func init() {
	// zcpair: load a bitmap zero-copy over a read-only buffer, give a second bitmap a chunk of a chosen
	// kind on one of its keys, and combine the two in both orders, statically and in place
	reg(&opDef{name: "zcpair", tag: "C08",
		gen: func(w *World, r *Rng) (Step, bool) {
			if w.regionsLive() >= maxRegions-1 {
				return Step{}, false
			}
			a := w.nonEmptySlot(r)
			ks := w.B[a].M.Keys()
			if len(ks) == 0 {
				return Step{}, false
			}
			k := ks[r.Intn(len(ks))]
			z := (a + 1 + r.Intn(len(w.B)-1)) % len(w.B)
			b := (z + 1 + r.Intn(len(w.B)-1)) % len(w.B)
			if b == a {
				b = (b + 1) % len(w.B)
				if b == z {
					b = (b + 1) % len(w.B)
				}
			}
			d := w.slot(r)
			var steps []Step
			if r.Chance(1, 3) {
				steps = append(steps, Step{Op: "freeze", S: []int{z, a}, A: []uint64{r.U64()}})
			} else {
				steps = append(steps, Step{Op: "rt", S: []int{z, a}, A: []uint64{uint64(r.Intn(4)), uint64(1 + r.Intn(2)), r.U64(), 0}})
			}
			steps = append(steps, w.kindSteps(r, b, k)...)
			op := uint64(r.Intn(4))
			switch r.Intn(4) {
			case 0:
				steps = append(steps, Step{Op: "binop", S: []int{d, z, b}, A: []uint64{op}})
				if r.Bool() && d != z && d != b {
					// the derived bitmap meets its zero-copy source again, in place, both ways round
					if r.Bool() {
						steps = append(steps, Step{Op: "ibinop", S: []int{d, z}, A: []uint64{uint64(r.Intn(4))}})
					} else {
						steps = append(steps, Step{Op: "ibinop", S: []int{z, d}, A: []uint64{uint64(r.Intn(4))}})
					}
				}
			case 1:
				steps = append(steps, Step{Op: "binop", S: []int{d, b, z}, A: []uint64{op}})
			case 2:
				steps = append(steps, Step{Op: "ibinop", S: []int{b, z}, A: []uint64{op}})
			default:
				steps = append(steps, Step{Op: "ibinop", S: []int{z, b}, A: []uint64{op}})
			}
			if r.Bool() {
				steps = append(steps, Step{Op: "agg", S: []int{d, z, b, z}, A: []uint64{uint64(r.Intn(7)), uint64(workerPool[r.Intn(len(workerPool))])}})
			}
			w.pending = append(w.pending, steps[1:]...)
			w.probe("zcpair-scenario")
			return steps[0], true
		},
		exec: func(w *World, st *Step) {}})
}

func init() {
	// wide: a bitmap with hundreds of chunks of mixed kinds (long key tables, offset headers,
	// batch boundaries in writers), then an operation of the profile's flavour on it
	reg(&opDef{name: "wide", tag: "C02",
		gen: func(w *World, r *Rng) (Step, bool) {
			if w.regionsLive() >= maxRegions-1 {
				return Step{}, false
			}
			b := w.slot(r)
			n := 200 + r.Intn(700)
			k0 := uint16(r.Intn(65536 - n - 8))
			if r.Chance(1, 4) {
				k0 = uint16(65536 - n - r.Intn(4) - 1)
			}
			steps := []Step{{Op: "clear", S: []int{b}}, {Op: "addmany", S: []int{b}, A: []uint64{uint64(k0), 7, uint64(n), r.U64()}}}
			for i := 0; i < 3+r.Intn(5); i++ {
				steps = append(steps, w.kindSteps(r, b, k0+uint16(r.Intn(n)))...)
			}
			d := (b + 1 + r.Intn(len(w.B)-1)) % len(w.B)
			switch r.Intn(6) {
			case 0:
				steps = append(steps, Step{Op: "freeze", S: []int{d, b}, A: []uint64{r.U64()}})
			case 1:
				steps = append(steps, Step{Op: "rt", S: []int{d, b}, A: []uint64{uint64(r.Intn(4)), uint64(r.Intn(5)), r.U64(), 0}})
			case 2:
				steps = append(steps, Step{Op: "binop", S: []int{d, b, w.nonEmptySlot(r)}, A: []uint64{uint64(r.Intn(4))}})
			case 3:
				steps = append(steps, Step{Op: "clone", S: []int{d, b}}, Step{Op: "ibinop", S: []int{d, w.nonEmptySlot(r)}, A: []uint64{uint64(r.Intn(4))}})
			case 4:
				steps = append(steps, Step{Op: "agg", S: []int{d, b, w.nonEmptySlot(r), b}, A: []uint64{uint64(r.Intn(7)), uint64(workerPool[r.Intn(len(workerPool))])}})
			default:
				steps = append(steps, Step{Op: "runopt", S: []int{b}}, Step{Op: "freeze", S: []int{d, b}, A: []uint64{r.U64()}})
			}
			w.pending = append(w.pending, steps[1:]...)
			w.probe("wide-scenario")
			return steps[0], true
		},
		exec: func(w *World, st *Step) {}})
}

func init() {
	// tinysubset: a bitmap holding one to three values that another bitmap already contains,
	// listed late in an aggregate: the aggregate must not change and must stay well-formed
	reg(&opDef{name: "tinysubset", tag: "C11",
		gen: func(w *World, r *Rng) (Step, bool) {
			a := w.nonEmptySlot(r)
			ks := w.B[a].M.Keys()
			if len(ks) == 0 {
				return Step{}, false
			}
			k := ks[r.Intn(len(ks))]
			words := w.B[a].M.ChunkWords(k)
			t := (a + 1 + r.Intn(len(w.B)-1)) % len(w.B)
			x := (t + 1 + r.Intn(len(w.B)-1)) % len(w.B)
			if x == a {
				x = (x + 1) % len(w.B)
				if x == t {
					x = (x + 1) % len(w.B)
				}
			}
			steps := []Step{{Op: "clear", S: []int{t}}}
			n := 1 + r.Intn(3)
			start := r.Intn(65536)
			for i := 0; i < 65536 && n > 0; i++ {
				p := (start + i*7919) % 65536
				if words[p>>6]&(1<<(uint(p)&63)) != 0 {
					steps = append(steps, Step{Op: "add", S: []int{t}, A: []uint64{uint64(k)<<16 | uint64(p), 0}})
					n--
				}
			}
			if r.Bool() {
				steps = append(steps, Step{Op: "runopt", S: []int{a}})
			}
			d := w.slot(r)
			list := [][]int{{a, x, t}, {a, a, t}, {x, a, t, t}, {a, t}, {t, a, x}}[r.Intn(5)]
			steps = append(steps, Step{Op: "agg", S: append([]int{d}, list...), A: []uint64{uint64(r.Intn(7)), uint64(workerPool[r.Intn(len(workerPool))])}})
			w.pending = append(w.pending, steps[1:]...)
			w.probe("tinysubset-scenario")
			return steps[0], true
		},
		exec: func(w *World, st *Step) {}})
}

func init() {
	// gap: operate on exactly the hole between two stretches of consecutive values
	// (fill it, flip it, or remove one of the stretches that bound it), also one value off
	reg(&opDef{name: "gap", tag: "C02",
		gen: func(w *World, r *Rng) (Step, bool) {
			b := w.nonEmptySlot(r)
			o := w.B[b]
			ks := o.M.Keys()
			if len(ks) == 0 {
				return Step{}, false
			}
			k := ks[r.Intn(len(ks))]
			words := o.M.ChunkWords(k)
			has := func(i int) bool { return i >= 0 && i < 65536 && words[i>>6]&(1<<(uint(i)&63)) != 0 }
			base := uint64(k) << 16
			start := r.Intn(65536)
			// find "present, absent..., present"
			for n := 0; n < 65536; n++ {
				i := (start + n) % 65536
				if !has(i) || has(i+1) || i+1 >= 65536 {
					continue
				}
				j := i + 1
				for j < 65536 && !has(j) {
					j++
				}
				if j >= 65536 {
					continue
				}
				// hole is [i+1, j)
				s, e := uint64(i+1), uint64(j)
				switch r.Intn(6) {
				case 0:
					s--
				case 1:
					e++
				case 2:
					if e-s > 1 {
						e--
					}
				}
				op := []string{"addrange", "flip", "flip", "addrange", "flipstatic"}[r.Intn(5)]
				w.probe("gap-scenario")
				if op == "flipstatic" {
					return Step{Op: op, S: []int{w.slot(r), b}, A: []uint64{base + s, base + e}}, true
				}
				return Step{Op: op, S: []int{b}, A: []uint64{base + s, base + e}}, true
			}
			return Step{}, false
		},
		exec: func(w *World, st *Step) {}})
}

func init() {
	// reuse: decode into a receiver whose internal tables have a history (cloned at one size,
	// grown by a few chunks, possibly shrunk again), from a source with a mid-sized chunk count
	reg(&opDef{name: "reuse", tag: "C05",
		gen: func(w *World, r *Rng) (Step, bool) {
			if w.regionsLive() >= maxRegions-1 {
				return Step{}, false
			}
			src, tmp := w.slot(r), 0
			tmp = (src + 1 + r.Intn(len(w.B)-1)) % len(w.B)
			recv := (tmp + 1 + r.Intn(len(w.B)-1)) % len(w.B)
			if recv == src {
				recv = (recv + 1) % len(w.B)
				if recv == tmp {
					recv = (recv + 1) % len(w.B)
				}
			}
			k0 := uint16(r.Intn(60000))
			steps := []Step{
				{Op: "clear", S: []int{src}},
				{Op: "addmany", S: []int{src}, A: []uint64{uint64(k0), 7, uint64(2 + r.Intn(60)), r.U64()}},
				{Op: "clear", S: []int{tmp}},
				{Op: "addmany", S: []int{tmp}, A: []uint64{uint64(k0 + uint16(r.Intn(10))), 7, uint64(1 + r.Intn(40)), r.U64()}},
				{Op: "clone", S: []int{recv, tmp}},
			}
			for i := 0; i < r.Intn(4); i++ {
				steps = append(steps, Step{Op: "addmany", S: []int{recv}, A: []uint64{uint64(k0 + 100 + uint16(r.Intn(3000))), 7, uint64(1 + r.Intn(12)), r.U64()}})
			}
			if r.Chance(1, 3) {
				steps = append(steps, Step{Op: "removerange", S: []int{recv}, A: []uint64{uint64(k0+50) << 16, uint64(k0+50+uint16(r.Intn(2000))) << 16}})
			}
			if r.Chance(1, 3) {
				steps = append(steps, w.kindSteps(r, src, k0+uint16(r.Intn(5)))...)
			}
			steps = append(steps, Step{Op: "rt", S: []int{recv, src}, A: []uint64{uint64(r.Intn(4)), uint64(r.Intn(5)), r.U64(), 1}})
			w.pending = append(w.pending, steps[1:]...)
			w.probe("reuse-scenario")
			return steps[0], true
		},
		exec: func(w *World, st *Step) {}})
	reg(&opDef{name: "reuse64", tag: "C18",
		gen: func(w *World, r *Rng) (Step, bool) {
			if w.regionsLive() >= maxRegions-1 {
				return Step{}, false
			}
			src := w.slot64(r)
			tmp := (src + 1) % numB64
			recv := (src + 2) % numB64
			h0 := uint64(r.Intn(1 << 30))
			steps := []Step{
				{Op: "maint64", S: []int{src, tmp}, A: []uint64{6}},
				{Op: "maint64", S: []int{tmp, src}, A: []uint64{6}},
				{Op: "addmany64", S: []int{src}, A: []uint64{h0, uint64(w.key(r)), 7, uint64(1 + r.Intn(40)), r.U64()}},
				{Op: "addmany64", S: []int{tmp}, A: []uint64{h0 + uint64(r.Intn(5)), uint64(w.key(r)), 7, uint64(1 + r.Intn(30)), r.U64()}},
				{Op: "maint64", S: []int{recv, tmp}, A: []uint64{1}},
			}
			for i := 0; i < r.Intn(4); i++ {
				steps = append(steps, Step{Op: "addmany64", S: []int{recv}, A: []uint64{h0 + 100 + uint64(r.Intn(1000)), uint64(w.key(r)), 7, uint64(1 + r.Intn(8)), r.U64()}})
			}
			steps = append(steps, Step{Op: "rt64", S: []int{recv, src}, A: []uint64{uint64(r.Intn(4)), uint64(r.Intn(4)), r.U64(), 1}})
			w.pending = append(w.pending, steps[1:]...)
			w.probe("reuse64-scenario")
			return steps[0], true
		},
		exec: func(w *World, st *Step) {}})
}

func init() {
	// par64: roaring64.ParOr splits the bucket key space into ranges; what a range worker does
	// with inputs whose buckets interleave inside one range (and continue beyond it) only shows
	// when several inputs spread over neighbouring buckets
	reg(&opDef{name: "par64", tag: "C12",
		gen: func(w *World, r *Rng) (Step, bool) {
			var h0 uint64
			switch r.Intn(4) {
			case 0:
				h0 = uint64(r.Intn(6))
			case 1:
				h0 = 0xFFFFFFFF - uint64(r.Intn(40))
			default:
				h0 = uint64(w.X.bucketKey(r))
			}
			n := 2 + r.Intn(4)
			var slots []int
			var steps []Step
			for i := 0; i < n; i++ {
				sl := w.slot64(r)
				if i > 0 && r.Chance(1, 3) {
					// this input starts as a copy-on-write clone of the previous one: its buckets are
					// flagged as shared in both
					prev := slots[i-1]
					sl = (prev + 1 + r.Intn(numB64-1)) % numB64
					steps = append(steps, Step{Op: "maint64", S: []int{sl, prev}, A: []uint64{2}}, Step{Op: "maint64", S: []int{sl, prev}, A: []uint64{1}})
				}
				slots = append(slots, sl)
				if r.Chance(1, 3) && len(steps) == 0 {
					steps = append(steps, Step{Op: "maint64", S: []int{sl, (sl + 1) % numB64}, A: []uint64{6}})
				}
				for j := 0; j < 1+r.Intn(2); j++ {
					h := (h0 + uint64(r.Intn(14))) & 0xFFFFFFFF
					shape := uint64(7)
					if r.Chance(1, 4) {
						shape = 6
					}
					steps = append(steps, Step{Op: "addmany64", S: []int{sl}, A: []uint64{h, uint64(w.key(r)), shape, uint64(1 + r.Intn(10)), r.U64()}})
				}
			}
			steps = append(steps, Step{Op: "parcmp", S: slots, A: []uint64{3, r.U64(), uint64(4 + r.Intn(5))}})
			w.pending = append(w.pending, steps[1:]...)
			w.probe("par64-scenario")
			return steps[0], true
		},
		exec: func(w *World, st *Step) {}})
}

func init() {
	// capflip: an in-place union of two sizeable array chunks leaves the receiver's chunk with a
	// backing array much larger than its contents; then bring it just across a threshold
	reg(&opDef{name: "capflip", tag: "C02",
		gen: func(w *World, r *Rng) (Step, bool) {
			a, b := w.slot(r), w.slot(r)
			if a == b {
				b = (a + 1) % len(w.B)
			}
			k := w.key(r)
			steps := []Step{
				{Op: "removerange", S: []int{a}, A: []uint64{uint64(k) << 16, (uint64(k) + 1) << 16}},
				{Op: "addmany", S: []int{a}, A: []uint64{uint64(k), 0, uint64(700 + r.Intn(1500)), r.U64()}},
				{Op: "removerange", S: []int{b}, A: []uint64{uint64(k) << 16, (uint64(k) + 1) << 16}},
				{Op: "addmany", S: []int{b}, A: []uint64{uint64(k), 0, uint64(700 + r.Intn(1500)), r.U64()}},
				{Op: "ibinop", S: []int{a, b}, A: []uint64{1}},
				{Op: "gen:thresh"},
			}
			if r.Bool() {
				steps = append(steps, Step{Op: "gen:thresh"})
			}
			w.pending = append(w.pending, steps[1:]...)
			w.probe("capflip-scenario")
			return steps[0], true
		},
		exec: func(w *World, st *Step) {}})
}

func init() {
	// offedge: the smallest bitmap chunk there is (4097..4100 scattered values, alone in its
	// bitmap, so that neither size bound has any slack), shifted so that its largest value lands
	// exactly on the last value of a chunk: the split of the chunk has an empty high half
	singleChunk := func(w *World, r *Rng, lo, hi int) int {
		from := r.Intn(len(w.B))
		for off := 0; off < len(w.B); off++ {
			sl := (from + off) % len(w.B)
			if m := w.B[sl].M; m.NumChunks() == 1 {
				if c := int(m.Card()); c >= lo && c <= hi {
					return sl
				}
			}
		}
		return -1
	}
	reg(&opDef{name: "offedge", tag: "C16",
		gen: func(w *World, r *Rng) (Step, bool) {
			a := w.slot(r)
			k := w.key(r)
			steps := []Step{
				{Op: "clear", S: []int{a}},
				{Op: "addmany", S: []int{a}, A: []uint64{uint64(k), 0, uint64(5000 + r.Intn(3000)), r.U64()}},
				{Op: "gen:offedge2"},
				{Op: "gen:offedge3"},
			}
			w.pending = append(w.pending, steps[1:]...)
			w.probe("offedge-scenario")
			return steps[0], true
		},
		exec: func(w *World, st *Step) {}})
	reg(&opDef{name: "offedge2", tag: "C16",
		gen: func(w *World, r *Rng) (Step, bool) {
			sl := singleChunk(w, r, 4101, 70000)
			if sl < 0 {
				return Step{}, false
			}
			T := []int{4097, 4098, 4099, 4100, 4096, 4097}[r.Intn(6)]
			k := w.B[sl].M.Keys()[0]
			n := 0
			var cut uint32
			w.B[sl].M.EachInChunk(k, func(x uint32) bool {
				n++
				cut = x
				return n <= T
			})
			return Step{Op: "removerange", S: []int{sl}, A: []uint64{uint64(cut), (uint64(k) + 1) << 16}}, true
		},
		exec: func(w *World, st *Step) {}})
	reg(&opDef{name: "offedge3", tag: "C16",
		gen: func(w *World, r *Rng) (Step, bool) {
			sl := singleChunk(w, r, 4090, 4110)
			if sl < 0 {
				return Step{}, false
			}
			mx, _ := w.B[sl].M.Max()
			k := int64(mx >> 16)
			d := 65535 - int64(mx&0xFFFF)
			if r.Chance(1, 3) {
				d -= int64(r.Intn(2)) // one short of the edge as well
			}
			switch r.Intn(3) {
			case 0:
				if k+1 < 0xFFFF {
					d += 65536
				}
			case 1:
				if k >= 1 {
					d -= 65536
				}
			}
			dst := (sl + 1 + r.Intn(len(w.B)-1)) % len(w.B)
			return Step{Op: "addoffset", S: []int{dst, sl}, A: []uint64{uint64(d), 0}}, true
		},
		exec: func(w *World, st *Step) {}})
}

func init() {
	// magic64: a 64-bit bitmap whose bucket count equals one of the portable format's cookies
	// (the 64-bit stream starts with the bucket count, the 32-bit stream with a cookie: a reader
	// that tries to tell them apart must not be fooled by the count)
	reg(&opDef{name: "magic64", tag: "C18",
		gen: func(w *World, r *Rng) (Step, bool) {
			if w.regionsLive() >= maxRegions-2 || !r.Chance(1, 6) {
				return Step{}, false // 12 000 buckets are costly: rarer than the smallest profile weight
			}
			a := w.slot64(r)
			dst := (a + 1) % numB64
			n := []uint64{12346, 12347, 12347, 12345}[r.Intn(4)]
			h0 := uint64(r.Intn(1 << 20))
			steps := []Step{
				{Op: "maint64", S: []int{a, dst}, A: []uint64{6}},
				{Op: "addmany64", S: []int{a}, A: []uint64{h0, uint64(w.key(r)), 8, n, r.U64()}},
			}
			for i := 0; i < 2; i++ {
				steps = append(steps, Step{Op: "rt64", S: []int{dst, a}, A: []uint64{uint64(r.Intn(4)), uint64(r.Intn(4)), r.U64(), 0}})
			}
			steps = append(steps, Step{Op: "maint64", S: []int{a, dst}, A: []uint64{6}}, Step{Op: "maint64", S: []int{dst, a}, A: []uint64{6}})
			w.pending = append(w.pending, steps[1:]...)
			w.probe("magic64-scenario")
			return steps[0], true
		},
		exec: func(w *World, st *Step) {}})
}

func init() {
	// cow64: a copy-on-write 64-bit bitmap over several buckets, a clone that shares them, and an
	// operand that cancels some of the receiver's buckets, skips others and reaches beyond: the
	// in-place operations compact the bucket table while the clone still shares what survives
	reg(&opDef{name: "cow64", tag: "C07",
		gen: func(w *World, r *Rng) (Step, bool) {
			a := w.slot64(r)
			b, x := (a+1)%numB64, (a+2)%numB64
			h0 := uint64(r.Intn(1 << 16))
			if r.Chance(1, 4) {
				h0 = 0xFFFFFFFF - 40 - uint64(r.Intn(10))
			}
			n := uint64(4 + r.Intn(9))
			key := uint64(w.key(r))
			steps := []Step{
				{Op: "maint64", S: []int{a, b}, A: []uint64{6}},
				{Op: "addmany64", S: []int{a}, A: []uint64{h0, key, 7, n, r.U64()}},
				{Op: "maint64", S: []int{b, a}, A: []uint64{2}}, // SetCopyOnWrite(true) on a
				{Op: "maint64", S: []int{b, a}, A: []uint64{1}}, // b = a.Clone()
				{Op: "maint64", S: []int{x, a}, A: []uint64{1}}, // x = a.Clone()
			}
			// x loses one or two of the later buckets, gains one beyond a's last
			for i := 0; i < 1+r.Intn(2); i++ {
				j := 1 + uint64(r.Intn(int(n-1)))
				steps = append(steps, Step{Op: "removerange64", S: []int{x}, A: []uint64{(h0 + j) << 32, (h0 + j + 1) << 32}})
			}
			steps = append(steps, Step{Op: "addmany64", S: []int{x}, A: []uint64{h0 + n + uint64(r.Intn(5)), key, 7, uint64(1 + r.Intn(3)), r.U64()}})
			op := uint64([]int{3, 3, 0, 2, 1}[r.Intn(5)])
			steps = append(steps, Step{Op: "binop64", S: []int{a, a, x}, A: []uint64{op, 1}})
			// then write through the receiver inside what survived
			for i := 0; i < 2; i++ {
				steps = append(steps, Step{Op: "addmany64", S: []int{a}, A: []uint64{h0 + uint64(r.Intn(int(n))), key, 0, uint64(1 + r.Intn(20)), r.U64()}})
			}
			w.pending = append(w.pending, steps[1:]...)
			w.probe("cow64-scenario")
			return steps[0], true
		},
		exec: func(w *World, st *Step) {}})

	// shrinkcow: a bitmap with hundreds of chunks shared with a copy-on-write clone loses most of
	// them in one call (the chunk table may be re-allocated or compacted), then the survivors
	// are written to
	reg(&opDef{name: "shrinkcow", tag: "C02",
		gen: func(w *World, r *Rng) (Step, bool) {
			a := w.slot(r)
			b := (a + 1 + r.Intn(len(w.B)-1)) % len(w.B)
			k0 := uint64(r.Intn(2000))
			if r.Chance(1, 4) {
				k0 = 0xFFFF - 1500 + uint64(r.Intn(100))
			}
			n := uint64(260 + r.Intn(1200))
			if k0+n > 0xFFFF {
				n = 0xFFFF - k0
			}
			keep := uint64(2 + r.Intn(60))
			steps := []Step{
				{Op: "clear", S: []int{a}},
				{Op: "addmany", S: []int{a}, A: []uint64{k0, 7, n, r.U64()}},
				{Op: "setcow", S: []int{a}, A: []uint64{1}},
				{Op: "clone", S: []int{b, a}},
			}
			// drop all but `keep` chunks in one call: a suffix, a prefix, or the middle
			switch r.Intn(3) {
			case 0:
				steps = append(steps, Step{Op: "removerange", S: []int{a}, A: []uint64{(k0 + keep) << 16, (k0 + n) << 16}})
			case 1:
				steps = append(steps, Step{Op: "removerange", S: []int{a}, A: []uint64{k0 << 16, (k0 + n - keep) << 16}})
			default:
				steps = append(steps, Step{Op: "removerange", S: []int{a}, A: []uint64{(k0 + keep/2 + 1) << 16, (k0 + n - keep/2) << 16}})
			}
			// write into what survived, at both ends
			for _, k := range []uint64{k0, k0 + 1, k0 + n - 1, k0 + keep/2} {
				steps = append(steps, Step{Op: "addmany", S: []int{a}, A: []uint64{k, 0, uint64(1 + r.Intn(30)), r.U64()}})
			}
			w.pending = append(w.pending, steps[1:]...)
			w.probe("shrinkcow-scenario")
			return steps[0], true
		},
		exec: func(w *World, st *Step) {}})
}

func init() {
	// breakeven: an array chunk whose run encoding is within a few bytes of its array encoding
	// (long consecutive stretches at varying positions among isolated values), then the
	// representation decisions: RunOptimize, a shift by a non-multiple of 65536, a round trip
	reg(&opDef{name: "breakeven", tag: "C09",
		gen: func(w *World, r *Rng) (Step, bool) {
			a := w.slot(r)
			k := uint64(w.key(r))
			if r.Chance(1, 3) {
				// several such chunks from key 0 upwards and nothing else: the size bounds have no
				// slack to absorb a few bytes per chunk
				m := 4 + r.Intn(8)
				steps := []Step{{Op: "clear", S: []int{a}}}
				for i := 0; i < m; i++ {
					steps = append(steps, Step{Op: "addmany", S: []int{a}, A: []uint64{uint64(i), 8, 0, r.U64()}})
				}
				steps = append(steps, Step{Op: "runopt", S: []int{a}})
				w.pending = append(w.pending, steps[1:]...)
				w.probe("breakeven-scenario-many-chunks")
				return steps[0], true
			}
			steps := []Step{
				{Op: "removerange", S: []int{a}, A: []uint64{k << 16, (k + 1) << 16}},
				{Op: "addmany", S: []int{a}, A: []uint64{k, 8, 0, r.U64()}},
				{Op: "runopt", S: []int{a}},
			}
			if r.Bool() {
				steps = append(steps, Step{Op: "add", S: []int{a}, A: []uint64{k<<16 | uint64(low(r)), 0}}, Step{Op: "runopt", S: []int{a}})
			}
			w.pending = append(w.pending, steps[1:]...)
			w.probe("breakeven-scenario")
			return steps[0], true
		},
		exec: func(w *World, st *Step) {}})
}

func init() {
	// runedge: a run chunk of more than 4096 values with 2046..2056 runs (a run chunk of 2055 runs
	// takes 8222 bytes, a bitmap chunk 8192), optimised, then point edits that add or split a run:
	// the re-typing decisions and the size bounds at their tightest
	reg(&opDef{name: "runedge", tag: "C02",
		gen: func(w *World, r *Rng) (Step, bool) {
			a := w.slot(r)
			k := uint64(w.key(r))
			if r.Bool() {
				k = 0 // alone at key 0 the size bounds have no slack
			}
			n := uint64([]int{2046, 2047, 2048, 2049, 2050, 2052, 2054, 2055, 2056, 2057}[r.Intn(10)])
			steps := []Step{{Op: "clear", S: []int{a}}}
			if k != 0 {
				steps = []Step{{Op: "removerange", S: []int{a}, A: []uint64{k << 16, (k + 1) << 16}}}
			}
			steps = append(steps,
				Step{Op: "addmany", S: []int{a}, A: []uint64{k, 9, n, r.U64()}},
				Step{Op: "runopt", S: []int{a}})
			for i := 0; i < 1+r.Intn(3); i++ {
				g := uint64(r.Intn(2040))
				switch r.Intn(4) {
				case 0: // an isolated value in a gap of the grid: one more run
					steps = append(steps, Step{Op: "add", S: []int{a}, A: []uint64{k<<16 | (g*31 + 15), uint64(r.Intn(3))}})
				case 1: // the second value of a run: splits a run of three, shortens a run of two
					steps = append(steps, Step{Op: "remove", S: []int{a}, A: []uint64{k<<16 | (g*31 + 2), uint64(r.Intn(2))}})
				case 2:
					steps = append(steps, Step{Op: "remove", S: []int{a}, A: []uint64{k<<16 | 65535, uint64(r.Intn(2))}})
				default:
					steps = append(steps, Step{Op: "flip", S: []int{a}, A: []uint64{k<<16 | (g*31 + 10), k<<16 | (g*31 + 12)}})
				}
			}
			if r.Bool() {
				steps = append(steps, Step{Op: "runopt", S: []int{a}})
			}
			w.pending = append(w.pending, steps[1:]...)
			w.probe("runedge-scenario")
			return steps[0], true
		},
		exec: func(w *World, st *Step) {}})
}

func init() {
	// allkeys: a bitmap that owns a chunk for every one of the 65536 keys (the whole universe,
	// then a few holes so that not every chunk is a full run), validated, frozen and written
	reg(&opDef{name: "allkeys", tag: "C09",
		gen: func(w *World, r *Rng) (Step, bool) {
			if w.regionsLive() >= maxRegions-2 {
				return Step{}, false
			}
			a := w.slot(r)
			dst := (a + 1 + r.Intn(len(w.B)-1)) % len(w.B)
			steps := []Step{
				{Op: "clear", S: []int{a}},
				{Op: "addrange", S: []int{a}, A: []uint64{0, 1 << 32}},
			}
			for i := 0; i < r.Intn(3); i++ {
				k := uint64(w.key(r))
				lo := k<<16 | uint64(low(r))
				steps = append(steps, Step{Op: "removerange", S: []int{a}, A: []uint64{lo, lo + uint64(1+r.Intn(3000))}})
			}
			if r.Bool() {
				steps = append(steps, Step{Op: "freeze", S: []int{dst, a}, A: []uint64{r.U64()}})
			} else {
				steps = append(steps, Step{Op: "rt", S: []int{dst, a}, A: []uint64{uint64(r.Intn(4)), uint64(r.Intn(5)), r.U64(), 0}})
			}
			steps = append(steps, Step{Op: "clear", S: []int{a}}, Step{Op: "clear", S: []int{dst}})
			w.pending = append(w.pending, steps[1:]...)
			w.probe("allkeys-scenario")
			return steps[0], true
		},
		exec: func(w *World, st *Step) {}})
}

func itoa(n int) string {
	if n == 0 {
		return "0"
	}
	s := ""
	for n > 0 {
		s = string(rune('0'+n%10)) + s
		n /= 10
	}
	return s
}

// kindSteps returns steps that give slot b, at key k, content of a chosen kind
// anchored at boundaries.
func (w *World) kindSteps(r *Rng, b int, k uint16) []Step {
	base := uint64(k) << 16
	edge := func() uint64 { return uint64(lowPool[r.Intn(len(lowPool))]) }
	var out []Step
	switch []int{0, 1, 2, 2, 3, 4, 5, 6, 7}[r.Intn(9)] {
	case 7: // one or two runs totalling exactly half a chunk (or 2048/2049/16384 values): counts
		// whose double is a threshold (65536 = full, 4096 = the array limit)
		total := uint64([]int{32768, 32768, 32768, 2048, 2049, 16384}[r.Intn(6)])
		switch r.Intn(3) {
		case 0:
			out = append(out, Step{Op: "addrange", S: []int{b}, A: []uint64{base, base + total}})
		case 1:
			out = append(out, Step{Op: "addrange", S: []int{b}, A: []uint64{base + 65536 - total, base + 65536}})
		default:
			x := 1 + uint64(r.Intn(int(total-1)))
			s1 := uint64(r.Intn(1000))
			s2 := s1 + x + 1 + uint64(r.Intn(int(65536-total-s1-1)))
			out = append(out, Step{Op: "addrange", S: []int{b}, A: []uint64{base + s1, base + s1 + x}})
			out = append(out, Step{Op: "addrange", S: []int{b}, A: []uint64{base + s2, base + s2 + total - x}})
		}
		out = append(out, Step{Op: "runopt", S: []int{b}})
	case 0: // small array
		out = append(out, Step{Op: "addmany", S: []int{b}, A: []uint64{uint64(k), uint64([]int{0, 1, 5}[r.Intn(3)]), uint64(1 + r.Intn(400)), r.U64()}})
	case 1: // larger array
		out = append(out, Step{Op: "addmany", S: []int{b}, A: []uint64{uint64(k), uint64([]int{0, 3}[r.Intn(2)]), uint64(800 + r.Intn(3200)), r.U64()}})
	case 2: // bitmap chunk
		out = append(out, Step{Op: "addmany", S: []int{b}, A: []uint64{uint64(k), uint64([]int{0, 2}[r.Intn(2)]), uint64(4500 + r.Intn(30000)), r.U64()}})
	case 3: // one run up to the upper edge
		s := edge()
		if r.Bool() {
			s = uint64(65536 - 1 - r.Intn(300))
		}
		out = append(out, Step{Op: "addrange", S: []int{b}, A: []uint64{base + s, base + 65536}})
		out = append(out, Step{Op: "runopt", S: []int{b}})
	case 4: // one run from the lower edge, and one more
		e := edge() + 1
		out = append(out, Step{Op: "addrange", S: []int{b}, A: []uint64{base, base + e}})
		s2 := e + 1 + uint64(r.Intn(2000))
		if s2 < 65536 {
			e2 := s2 + 1 + uint64(r.Intn(500))
			if e2 > 65536 {
				e2 = 65536
			}
			out = append(out, Step{Op: "addrange", S: []int{b}, A: []uint64{base + s2, base + e2}})
		}
		out = append(out, Step{Op: "runopt", S: []int{b}})
	case 5: // several runs, one ending at the upper edge
		pos := uint64(r.Intn(2000))
		for i := 0; i < 2+r.Intn(6) && pos < 65000; i++ {
			l := uint64(1 + r.Intn(3000))
			out = append(out, Step{Op: "addrange", S: []int{b}, A: []uint64{base + pos, base + pos + l}})
			pos += l + 1 + uint64(r.Intn(4000))
		}
		out = append(out, Step{Op: "addrange", S: []int{b}, A: []uint64{base + 65536 - uint64(1+r.Intn(100)), base + 65536}})
		out = append(out, Step{Op: "runopt", S: []int{b}})
	default: // full chunk
		out = append(out, Step{Op: "addrange", S: []int{b}, A: []uint64{base, base + 65536}})
	}
	return out
}
