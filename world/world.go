// Package world is the history simulator: a population of objects evolves
// under concrete, replayable steps while a naive reference model evolves in
// lock-step; per-property postconditions are evaluated after every step.
package world

import (
	"fmt"
	"regexp"
	"runtime"
	"runtime/debug"
	"sort"
	"strings"

	"github.com/RoaringBitmap/roaring/v2"

	simrt "verifsimrt"

	"verif/model"
	"verif/simio"
)

// Step is one concrete, replayable transition. Replay needs no PRNG.
type Step struct {
	Op string   `json:"op"`
	S  []int    `json:"s,omitempty"` // object slots
	A  []uint64 `json:"a,omitempty"` // numeric arguments (op specific)
	// schedule of this step under the deterministic scheduler (instrumented builds):
	// seed + policy decide every goroutine choice; SC, when present, is the explicit
	// (minimised) choice list and takes precedence.
	SS uint64  `json:"ss,omitempty"`
	SP string  `json:"sp,omitempty"`
	SC []int32 `json:"sc,omitempty"`
}

func (s Step) String() string { return fmt.Sprintf("%s%v%v", s.Op, s.S, s.A) }

// Failure is one violated postcondition.
type Failure struct {
	Prop   string `json:"prop"`
	Oracle string `json:"oracle"`
	Op     string `json:"op"`
	Class  string `json:"class"`
	Detail string `json:"detail"`
	Step   int    `json:"step"`
}

// Sig identifies a root cause: property, oracle, operation, symptom class.
func (f Failure) Sig() string { return f.Prop + "|" + f.Oracle + "|" + f.Op + "|" + f.Class }

var reDigits = regexp.MustCompile(`0x[0-9a-fA-F]+|[0-9]+`)

// classOf normalises a message into a symptom class (numbers removed).
func classOf(msg string) string {
	msg = reDigits.ReplaceAllString(msg, "#")
	if i := strings.IndexByte(msg, '\n'); i >= 0 {
		msg = msg[:i]
	}
	if len(msg) > 80 {
		msg = msg[:80]
	}
	return msg
}

// Obj32 is a 32-bit bitmap with its model and provenance.
type Obj32 struct {
	BM       *roaring.Bitmap
	M        *model.Set32
	Regions  []int // regions this bitmap may still reference
	ZeroCopy bool  // built directly over caller memory: SetCopyOnWrite is off limits
	Frozen   bool
	Detached bool   // CloneCopyOnWriteContainers was called since creation
	Prov     string // how it was made (for evidence / signatures)
}

// Config selects what a run does.
type Config struct {
	Prop    string // property whose failures are reported
	Profile string // op mix (defaults to Prop)
	Steps   int
	Slots   int
}

// Stats are the per-run measurements that end up in evidence.
type Stats struct {
	Steps         int
	Effective     int
	Ops           map[string]int
	Probes        map[string]int
	Faults        map[string]int
	Foreign       int
	ForeignSigs   map[string]int
	StructUnconf  int
	States        map[uint64]struct{}
	Pairings      map[string]int
	GCs           int
	SchedRuns     int
	Decisions     int
	Interleavings map[uint64]struct{}
	DiskTuples    map[string]int
}

func newStats() *Stats {
	return &Stats{Ops: map[string]int{}, Probes: map[string]int{}, Faults: map[string]int{},
		ForeignSigs: map[string]int{}, States: map[uint64]struct{}{}, Pairings: map[string]int{},
		Interleavings: map[uint64]struct{}{}, DiskTuples: map[string]int{}}
}

// World is the simulated population.
type World struct {
	Cfg   Config
	B     []*Obj32
	Regs  []*simio.Region
	Files [][]byte
	Keys  []uint16 // active chunk keys of this history (generation only)

	X *Ext // 64-bit, BSI, cursors (ext.go)

	Fails []Failure
	St    *Stats

	step       int
	curOp      string
	curTag     string
	panicked   bool
	unconf     map[[2]uintptr]bool
	pending    []Step
	selfProbes int
	outs       map[int]bool
	touched    bool
	// Repair makes the world continue after a failure (resync + rebuild).
	NoRepair bool
}

func New(cfg Config) *World {
	if cfg.Slots == 0 {
		cfg.Slots = 6
	}
	if cfg.Profile == "" {
		cfg.Profile = cfg.Prop
	}
	w := &World{Cfg: cfg, St: newStats()}
	w.B = make([]*Obj32, cfg.Slots)
	for i := range w.B {
		w.B[i] = &Obj32{BM: roaring.New(), M: model.NewSet32(), Prov: "new"}
	}
	w.X = newExt(w)
	return w
}

// Close releases simulated storage.
func (w *World) Close() {
	for _, r := range w.Regs {
		if r != nil {
			r.Free()
		}
	}
	w.Regs = nil
}

func (w *World) probe(name string) { w.St.Probes[name]++ }

// fail records a violated postcondition. prop may name several properties
// ("C07+C02") when their statements both literally entail the postcondition.
// Returns true when the failure belongs to the property being checked.
func (w *World) fail(prop, oracle, class, detail string) bool {
	props := strings.Split(prop, "+")
	mine := false
	for _, p := range props {
		if p == w.Cfg.Prop {
			mine = true
		}
	}
	f := Failure{Prop: props[0], Oracle: oracle, Op: w.curOp, Class: classOf(class), Detail: detail, Step: w.step}
	if !mine {
		w.St.Foreign++
		w.St.ForeignSigs[f.Sig()]++
		return false
	}
	f.Prop = w.Cfg.Prop
	w.Fails = append(w.Fails, f)
	return true
}

// faultAddr extracts the faulting address of a memory-fault panic.
func faultAddr(r interface{}) (uintptr, bool) {
	type addrer interface{ Addr() uintptr }
	if a, ok := r.(addrer); ok {
		return a.Addr(), true
	}
	return 0, false
}

// try runs f; a panic is a failure of tag (or of the region's property when
// it is a memory fault inside a simulated region). Returns true if f panicked.
func (w *World) try(tag string, f func()) (panicked bool) {
	defer func() {
		if r := recover(); r != nil {
			if simrt.IsAbort(r) {
				panic(r) // the scheduler is unwinding a deadlocked simulation
			}
			panicked = true
			w.panicked = true
			if addr, ok := faultAddr(r); ok {
				if ri, reg := w.regionOf(addr); reg != nil {
					w.fail(reg.Prop, "region-fault", reg.StateName(), fmt.Sprintf("memory fault at %#x inside region %d (%s, %s) during %s", addr, ri, reg.Kind, reg.StateName(), w.curOp))
					return
				}
				w.fail(tag, "panic", "memory fault outside regions", fmt.Sprintf("fault addr %#x: %v", addr, r))
				return
			}
			msg := fmt.Sprint(r)
			w.fail(tag, "panic", msg, msg+"\n"+shortStack())
		}
	}()
	f()
	return false
}

func shortStack() string {
	b := debug.Stack()
	lines := strings.Split(string(b), "\n")
	var keep []string
	for _, l := range lines {
		if strings.Contains(l, "roaring") && strings.Contains(l, ".go:") {
			keep = append(keep, strings.TrimSpace(l))
			if len(keep) >= 6 {
				break
			}
		}
	}
	return strings.Join(keep, " <- ")
}

func (w *World) regionOf(addr uintptr) (int, *simio.Region) {
	for i, r := range w.Regs {
		if r != nil && r.Contains(addr) {
			return i, r
		}
	}
	return -1, nil
}

// out declares slot i as an output of the current step.
func (w *World) out(i int) { w.outs[i] = true }

// eq32 compares a real bitmap with a model through the public API.
func eq32(bm *roaring.Bitmap, m *model.Set32) (ok bool, detail string) {
	defer func() {
		if r := recover(); r != nil {
			if addr, isFault := faultAddr(r); isFault {
				ok, detail = false, fmt.Sprintf("FAULT@%#x memory fault while reading contents: %v", addr, r)
				return
			}
			ok, detail = false, fmt.Sprintf("panic while reading contents: %v", r)
		}
	}()
	want := m.Card()
	got := bm.GetCardinality()
	if want > GiantCard {
		return eq32big(bm, m, got, want)
	}
	if got > 1<<28 {
		return false, fmt.Sprintf("cardinality %d absurd (want %d)", got, want)
	}
	arr := bm.ToArray()
	if uint64(len(arr)) != want || got != want {
		// find first difference for the message
		d := firstDiff(arr, m)
		return false, fmt.Sprintf("cardinality: GetCardinality=%d len(ToArray)=%d model=%d; %s", got, len(arr), want, d)
	}
	i := 0
	good := true
	var bad string
	m.Each(func(x uint32) bool {
		if arr[i] != x {
			good = false
			bad = fmt.Sprintf("element %d: got %d (%#x) want %d (%#x)", i, arr[i], arr[i], x, x)
			return false
		}
		i++
		return true
	})
	if !good {
		return false, bad
	}
	if bm.IsEmpty() != (want == 0) {
		return false, "IsEmpty disagrees with contents"
	}
	return true, ""
}

// GiantCard: above this many elements a bitmap is compared chunk-wise instead of
// element-wise (universe-scale ranges: AddRange(0, 2^32), complements).
const GiantCard = 3 << 20

// eq32big compares a very large bitmap with its model: exact total cardinality, every
// full chunk of the model through CardinalityInRange, every partial chunk element by
// element through an iterator positioned with AdvanceIfNeeded.
func eq32big(bm *roaring.Bitmap, m *model.Set32, got, want uint64) (bool, string) {
	if got != want {
		return false, fmt.Sprintf("cardinality: GetCardinality=%d model=%d", got, want)
	}
	it := bm.Iterator()
	for _, k := range m.Keys() {
		lo := uint64(k) << 16
		if m.IsFullChunk(k) {
			if c := bm.CardinalityInRange(lo, lo+65536); c != 65536 {
				return false, fmt.Sprintf("chunk %#x should be full, CardinalityInRange=%d", k, c)
			}
			continue
		}
		it.AdvanceIfNeeded(uint32(lo))
		bad := ""
		m.EachInChunk(k, func(x uint32) bool {
			if !it.HasNext() {
				bad = fmt.Sprintf("missing %d (%#x)", x, x)
				return false
			}
			if v := it.Next(); v != x {
				bad = fmt.Sprintf("chunk %#x: got %d want %d", k, v, x)
				return false
			}
			return true
		})
		if bad != "" {
			return false, bad
		}
		if it.HasNext() && uint64(it.PeekNext()) < lo+65536 {
			return false, fmt.Sprintf("chunk %#x: extra element %d", k, it.PeekNext())
		}
	}
	if bm.IsEmpty() {
		return false, "IsEmpty on a non-empty bitmap"
	}
	return true, ""
}

// buildFromModel constructs a bitmap holding exactly m through a clean route
// (ranges for full chunks, bulk adds for the rest).
func buildFromModel(m *model.Set32) *roaring.Bitmap {
	bm := roaring.New()
	if m.Card() <= GiantCard {
		bm.AddMany(m.Slice())
		return bm
	}
	ks := m.Keys()
	for i := 0; i < len(ks); i++ {
		k := ks[i]
		if m.IsFullChunk(k) {
			j := i
			for j+1 < len(ks) && ks[j+1] == ks[j]+1 && m.IsFullChunk(ks[j+1]) {
				j++
			}
			bm.AddRange(uint64(k)<<16, (uint64(ks[j])+1)<<16)
			i = j
			continue
		}
		var vals []uint32
		m.EachInChunk(k, func(x uint32) bool { vals = append(vals, x); return true })
		bm.AddMany(vals)
	}
	return bm
}

// HasGiant reports whether any object of the world is universe-scale.
func (w *World) HasGiant() bool {
	for _, o := range w.B {
		if o.M.NumChunks() > 600 && o.M.Card() > GiantCard {
			return true
		}
	}
	for _, o := range w.X.B64 {
		if o.M.Card() > GiantCard {
			return true
		}
	}
	return false
}

// giant reports whether slot i currently holds a universe-scale set.
func (w *World) giant(i int) bool { return w.B[i].M.Card() > GiantCard }

func firstDiff(arr []uint32, m *model.Set32) string {
	i := 0
	res := ""
	m.Each(func(x uint32) bool {
		if i >= len(arr) {
			res = fmt.Sprintf("missing %d (%#x) at index %d", x, x, i)
			return false
		}
		if arr[i] != x {
			if arr[i] < x {
				res = fmt.Sprintf("extra %d (%#x) at index %d", arr[i], arr[i], i)
			} else {
				res = fmt.Sprintf("missing %d (%#x) at index %d", x, x, i)
			}
			return false
		}
		i++
		return true
	})
	if res == "" && i < len(arr) {
		res = fmt.Sprintf("extra %d (%#x) at index %d", arr[i], arr[i], i)
	}
	return res
}

// rebuild replaces slot i by a clean construction from its model.
func (w *World) rebuild(i int) {
	o := w.B[i]
	cow := false
	func() {
		defer func() { recover() }()
		cow = o.BM.GetCopyOnWrite()
	}()
	if o.ZeroCopy {
		cow = false
	}
	bm := buildFromModel(o.M)
	if cow {
		bm.SetCopyOnWrite(true)
	}
	w.B[i] = &Obj32{BM: bm, M: o.M, Prov: "rebuilt"}
	w.X.dropCursorsOf(i)
}

// checkOutput compares an output object with its model; on mismatch records a
// failure under tag and repairs.
// provTag adds the property whose statement covers later operations on a decoded object: a
// frozen view "supports all read and (copying) write operations" (C13), a bitmap read back from
// the portable format "supports all further operations" (C05).
func (w *World) provTag(i int, tag string) string {
	o := w.B[i]
	switch {
	case o.Frozen:
		return tag + "+C13"
	case o.ZeroCopy || strings.HasPrefix(o.Prov, "decoded:"):
		return tag + "+C05"
	}
	return tag
}

func (w *World) checkOutput(i int, tag string) {
	o := w.B[i]
	ok, d := eq32(o.BM, o.M)
	if !ok {
		tag = w.provTag(i, tag)
		if !w.readFault(i, d) {
			w.fail(tag, "contents", "result differs from model", fmt.Sprintf("slot %d after %s: %s", i, w.curOp, d))
		}
		w.rebuild(i)
	}
}

// interferenceTag: one bitmap changing because another was written is C07; when
// the writing step is one of C02's own calls (mutations, Clone, SetCopyOnWrite ...)
// the changed bitmap also no longer equals the replay of its own history (C02).
func (w *World) interferenceTag() string {
	if w.curTag == "C02" {
		return "C07+C02"
	}
	return "C07"
}

// interTag: interference that involves a bitmap backed by, or derived from, a caller's buffer
// also breaks C08 ("keeps behaving as a correct set while the buffer stays intact").
func (w *World) interTag(slots ...int) string {
	tag := w.interferenceTag()
	for _, i := range slots {
		if i >= 0 && i < len(w.B) {
			if o := w.B[i]; o.ZeroCopy || o.Frozen || len(o.Regions) > 0 {
				return tag + "+C08"
			}
		}
	}
	return tag
}

// readFault attributes a memory fault met while reading a bitmap's contents:
// inside a simulated region it is that region's property (a dependency on a
// buffer that was detached and discarded, or an over-read).
func (w *World) readFault(slot int, detail string) bool {
	var addr uintptr
	if n, _ := fmt.Sscanf(detail, "FAULT@0x%x", &addr); n != 1 {
		return false
	}
	o := w.B[slot]
	if ri, reg := w.regionOf(addr); reg != nil {
		what := "bitmap still depends on a buffer that was discarded after CloneCopyOnWriteContainers"
		if !o.Detached {
			what = "read outside the caller's buffer"
		}
		w.fail(reg.Prop, "region-fault", reg.StateName()+" "+o.Prov, fmt.Sprintf("reading slot %d (%s, detached=%v) after %s faults at %#x inside region %d (%s, %s): %s", slot, o.Prov, o.Detached, w.curOp, addr, ri, reg.Kind, reg.StateName(), what))
		return true
	}
	w.fail(w.curTag, "panic", "memory fault outside regions while reading contents", detail)
	return true
}

// afterStep evaluates the world invariants.
func (w *World) afterStep(primaryTag string) {
	// 1. outputs: contents (primary tag)
	outs := make([]int, 0, len(w.outs))
	for i := range w.outs {
		outs = append(outs, i)
	}
	sort.Ints(outs)
	for _, i := range outs {
		if w.panicked {
			w.rebuild(i) // state after a panic is unspecified; the panic itself was recorded
			continue
		}
		// well-formedness is looked at before the contents check gets a chance to rebuild the
		// object: an ill-formed chunk often has wrong contents too, and both properties must see it
		w.validate32(i)
		w.checkOutput(i, primaryTag)
	}
	// 2. bystanders: every other live bitmap still equals its model (C07 / C08 for region-backed)
	for i, o := range w.B {
		if w.outs[i] {
			continue
		}
		ok, d := eq32(o.BM, o.M)
		if !ok {
			if !w.readFault(i, d) {
				switch {
				case w.curOp == "gc" && (o.Frozen || len(o.Regions) > 0):
					// nothing but a collection happened: a lifetime bug of a zero-copy bitmap
					// (C08 "keeps behaving as a correct set", C13 "supports copying writes")
					tag := "C08"
					if w.Cfg.Prop == "C13" && o.Frozen {
						tag = "C13"
					}
					w.fail(tag, "gc-lifetime", "contents changed across a garbage collection ("+o.Prov+")", fmt.Sprintf("slot %d (%s) changed during a collection: %s", i, o.Prov, d))
				case w.curOp == "gc":
					w.fail("C02", "gc-lifetime", "contents changed across a garbage collection ("+o.Prov+")", fmt.Sprintf("slot %d (%s) changed during a collection: %s", i, o.Prov, d))
				default:
					w.fail(w.interTag(i), "bystander", "bitmap not involved as output changed", fmt.Sprintf("slot %d (%s) changed during %s: %s", i, o.Prov, w.curOp, d))
				}
			}
			w.rebuild(i)
		}
	}
	// 3. structural sharing scan + behavioural probe
	w.sharingScan()
	// 4. regions intact
	w.regionScan()
	// 5. well-formedness (C09) and size bound (C14) of outputs
	for _, i := range outs {
		w.sizeBound32(i)
	}
	w.X.afterStep(primaryTag)
	w.recordState()
}

// validate32: Validate() plus an independent invariant walk.
func (w *World) validate32(i int) {
	o := w.B[i]
	var verr error
	if w.try("C09", func() { verr = o.BM.Validate() }) {
		w.rebuild(i)
		return
	}
	walk := walk32(o.BM)
	// An ill-formed object is rebuilt only when C09 is the property under check
	// (first-cause attribution); otherwise it stays, so that its consequences for
	// the property under check (a failing round trip, a wrong result) are seen.
	if verr != nil {
		if w.fail("C09", "validate", verr.Error(), fmt.Sprintf("slot %d (%s) after %s: Validate()=%v; walk=%q", i, o.Prov, w.curOp, verr, walk)) {
			w.rebuild(i)
		}
		return
	}
	if walk != "" {
		if w.fail("C09", "walk", walk, fmt.Sprintf("slot %d (%s) after %s: Validate()=nil but invariant walk says %s", i, o.Prov, w.curOp, walk)) {
			w.rebuild(i)
		}
	}
}

// walk32 checks the representation invariants named in C09 through the hook
// view without trusting Validate. Returns "" when well-formed.
func walk32(bm *roaring.Bitmap) (res string) {
	defer func() {
		if r := recover(); r != nil {
			res = fmt.Sprintf("walk panic: %v", r)
		}
	}()
	nk, nc, nf := bm.VerifLens()
	if nk != nc || nk != nf {
		return fmt.Sprintf("parallel slices differ in length: keys=%d containers=%d flags=%d", nk, nc, nf)
	}
	chunks := bm.VerifChunks()
	for i, c := range chunks {
		if i > 0 && chunks[i-1].Key >= c.Key {
			return "chunk keys not strictly increasing"
		}
		switch c.Kind {
		case 1:
			arr := bm.VerifChunkArray(i)
			if len(arr) == 0 {
				return "empty array chunk"
			}
			if len(arr) > 4096 {
				return "array chunk holds more than 4096 values"
			}
			for j := 1; j < len(arr); j++ {
				if arr[j-1] >= arr[j] {
					return "array chunk not strictly increasing"
				}
			}
		case 0:
			ws := bm.VerifChunkWords(i)
			if len(ws) != 1024 {
				return "bitmap chunk does not have 1024 words"
			}
			n := 0
			for _, x := range ws {
				for ; x != 0; x &= x - 1 {
					n++
				}
			}
			if n != c.Card {
				return "bitmap chunk cached cardinality wrong"
			}
			if n == 0 {
				return "empty bitmap chunk"
			}
			if n <= 4096 {
				return "bitmap chunk holds at most 4096 values"
			}
		case 2:
			rs := bm.VerifChunkRuns(i)
			if len(rs) == 0 {
				return "empty run chunk"
			}
			prevEnd := -2
			for _, r := range rs {
				s, e := int(r[0]), int(r[0])+int(r[1])
				if e > 65535 {
					return "run exceeds 65535"
				}
				if s <= prevEnd {
					return "runs overlap or unsorted"
				}
				if s == prevEnd+1 {
					return "runs adjacent"
				}
				prevEnd = e
			}
		default:
			return "nil or unknown chunk"
		}
	}
	return ""
}

// sizeBound32 checks C14 on slot i, before and after RunOptimize (on a clone,
// so that the history is not perturbed).
func (w *World) sizeBound32(i int) {
	o := w.B[i]
	n := o.M.Card()
	if n == 0 {
		return
	}
	mx, _ := o.M.Max()
	x := uint64(mx) + 1
	chk := func(bm *roaring.Bitmap, when string) {
		var sz uint64
		if w.try("C14", func() { sz = bm.GetSerializedSizeInBytes() }) {
			return
		}
		readme := 8 + 9*((x+65535)/65536) + 2*n
		if sz > readme {
			w.fail("C14", "size-bound", "exceeds README bound "+when, fmt.Sprintf("slot %d (%s) after %s: size %d > 8+9*ceil(%d/65536)+2*%d = %d (%s)", i, o.Prov, w.curOp, sz, x, n, readme, when))
			return
		}
		b := roaring.BoundSerializedSizeInBytes(n, x)
		if sz > b {
			w.fail("C14", "size-bound", "exceeds BoundSerializedSizeInBytes "+when, fmt.Sprintf("slot %d after %s: size %d > Bound(%d,%d)=%d (%s)", i, w.curOp, sz, n, x, b, when))
		}
	}
	beforeMine := len(w.Fails)
	chk(o.BM, "as is")
	if w.step%4 == 0 || w.Cfg.Profile == "C14" {
		var c *roaring.Bitmap
		if !w.try("C14", func() { c = o.BM.Clone(); c.RunOptimize() }) {
			chk(c, "after RunOptimize")
		}
	}
	if len(w.Fails) == beforeMine && w.Cfg.Prop == "C14" {
		w.sizeBoundPerChunk(i)
	}
	if len(w.Fails) != beforeMine {
		w.rebuild(i)
	}
}

// sizeBoundPerChunk: the bound is loose for a bitmap that also holds chunks at high keys, so
// each chunk is also looked at on its own, as the bitmap And(b, [k<<16,(k+1)<<16)) shifted
// down to key 0 with AddOffset64 - a bitmap built through the public API, for which N and x
// are as tight as they can be. (Both calls copy the chunk as it is.)
func (w *World) sizeBoundPerChunk(i int) {
	o := w.B[i]
	ks := o.M.Keys()
	if len(ks) > 12 {
		// sample: the first, the last and a window chosen by the step number
		s := (w.step * 7) % (len(ks) - 10)
		ks = append([]uint16{ks[0], ks[len(ks)-1]}, ks[s:s+10]...)
	}
	for _, k := range ks {
		n := uint64(o.M.ChunkCard(k))
		if n == 0 {
			continue
		}
		var mxLow uint32
		o.M.EachInChunk(k, func(x uint32) bool { mxLow = x & 0xFFFF; return true })
		x := uint64(mxLow) + 1
		var sz uint64
		if w.try("C14", func() {
			mask := roaring.New()
			mask.AddRange(uint64(k)<<16, (uint64(k)+1)<<16)
			sub := roaring.AddOffset64(roaring.And(o.BM, mask), -(int64(k) << 16))
			sz = sub.GetSerializedSizeInBytes()
		}) {
			return
		}
		readme := 8 + 9*((x+65535)/65536) + 2*n
		b := roaring.BoundSerializedSizeInBytes(n, x)
		if sz > readme || sz > b {
			w.fail("C14", "size-bound", "one chunk on its own exceeds the bound", fmt.Sprintf("slot %d (%s) after %s: chunk %#x isolated with And+AddOffset64 holds %d values below %d and serializes to %d bytes; README bound %d, BoundSerializedSizeInBytes %d", i, o.Prov, w.curOp, k, n, x, sz, readme, b))
			return
		}
	}
}

// recordState fingerprints the abstract state for the distinct-state measure.
func (w *World) recordState() {
	h := uint64(1469598103934665603)
	mix := func(v uint64) { h ^= v; h *= 1099511628211 }
	for _, o := range w.B {
		func() {
			defer func() { recover() }()
			for _, c := range o.BM.VerifChunks() {
				b := uint64(0)
				switch {
				case c.Card <= 1:
					b = 0
				case c.Card <= 64:
					b = 1
				case c.Card < 4096:
					b = 2
				case c.Card == 4096:
					b = 3
				case c.Card < 65536:
					b = 4
				default:
					b = 5
				}
				f := uint64(0)
				if c.NeedCOW {
					f = 1
				}
				mix(uint64(c.Kind+1)<<8 | b<<4 | f)
			}
			mix(0xFFFF)
		}()
	}
	mix(w.X.bsiState())
	for _, o := range w.X.B64 {
		func() {
			defer func() { recover() }()
			for _, b := range o.BM.VerifBuckets() {
				f := uint64(0)
				if b.NeedCOW {
					f = 1
				}
				nk := uint64(0)
				kinds := uint64(0)
				if b.Inner != nil {
					for _, c := range b.Inner.VerifChunks() {
						nk++
						kinds |= 1 << uint(c.Kind+1)
					}
				}
				if nk > 3 {
					nk = 3
				}
				mix(0x64<<16 | nk<<8 | kinds<<1 | f)
			}
			mix(0xFFFE)
		}()
	}
	mix(HashStr(w.curOp))
	w.St.States[h] = struct{}{}
}

// pairing records which representation pairing an algebra op met.
func (w *World) pairing(op string, a, b *roaring.Bitmap) {
	defer func() { recover() }()
	ca, cb := a.VerifChunks(), b.VerifChunks()
	i, j := 0, 0
	kinds := "bar"
	for i < len(ca) && j < len(cb) {
		switch {
		case ca[i].Key < cb[j].Key:
			i++
		case ca[i].Key > cb[j].Key:
			j++
		default:
			if ca[i].Kind >= 0 && cb[j].Kind >= 0 {
				s := ""
				if ca[i].NeedCOW {
					s += "s"
				}
				if cb[j].NeedCOW {
					s += "S"
				}
				w.St.Pairings[op+":"+string(kinds[ca[i].Kind])+string(kinds[cb[j].Kind])+s]++
			}
			i++
			j++
		}
	}
}

// RunSteps executes concrete steps (replay) and returns the failures.
func (w *World) RunSteps(steps []Step) []Failure {
	for i := range steps {
		w.Exec(&steps[i])
	}
	return w.Fails
}

// Exec executes one concrete step and evaluates invariants.
func (w *World) Exec(st *Step) {
	def := opTable[st.Op]
	if def == nil {
		return
	}
	w.curOp = st.Op
	w.curTag = def.tag
	w.panicked = false
	w.outs = map[int]bool{}
	w.St.Steps++
	w.St.Ops[st.Op]++
	if !def.valid(w, st) {
		w.step++
		return
	}
	w.St.Effective++
	if simrt.Instrumented && !def.selfSched {
		res := simrt.Run(simrt.Config{Seed: st.SS, Policy: st.SP, Choices: st.SC}, func() { def.exec(w, st) })
		w.schedResult(&res, "")
	} else {
		def.exec(w, st)
	}
	w.afterStep(def.tag)
	w.step++
}

var schedPolicies = []string{"random", "random", "random", "pct", "pct", "lowest", "starve"}

// PendingLen is the number of queued scenario steps.
func (w *World) PendingLen() int { return len(w.pending) }

// Generate draws the next step from the seed and the current state. Scenario
// generators may queue follow-up steps (w.pending), which are delivered first.
func (w *World) Generate(r *Rng) Step {
	for len(w.pending) > 0 {
		st := w.pending[0]
		w.pending = w.pending[1:]
		if strings.HasPrefix(st.Op, "gen:") {
			// a deferred generator: its arguments are computed from the state the scenario has built so far
			def := opTable[st.Op[4:]]
			st2, ok := def.gen(w, r)
			if !ok {
				continue
			}
			if st2.Op == "" {
				st2.Op = st.Op[4:]
			}
			st = st2
		}
		st.SS = r.U64()
		st.SP = schedPolicies[r.Intn(len(schedPolicies))]
		return st
	}
	prof := profiles[w.Cfg.Profile]
	if prof == nil {
		prof = profiles["default"]
	}
	for tries := 0; tries < 50; tries++ {
		name := prof.names[r.Pick(prof.weights)]
		def := opTable[name]
		if st, ok := def.gen(w, r); ok {
			if st.Op == "" {
				st.Op = name
			}
			st.SS = r.U64()
			st.SP = schedPolicies[r.Intn(len(schedPolicies))]
			return st
		}
	}
	return Step{Op: "gc"}
}

// schedResult turns what the scheduler observed into C12 postconditions and statistics.
func (w *World) schedResult(res *simrt.Result, what string) (bad bool) {
	w.St.Decisions += res.Decisions
	w.St.SchedRuns++
	if res.Switches >= 2 && res.Decisions > 0 {
		w.St.Interleavings[res.Fingerprint] = struct{}{}
	}
	for k, v := range res.Probes {
		w.St.Probes["sched:"+k] += v
	}
	tag := "C12"
	if w.curTag != "" && w.curTag != "C12" {
		tag = "C12+" + w.curTag
	}
	if res.Deadlock != "" {
		w.fail(tag, "deadlock", "deadlock", fmt.Sprintf("%s%s: nothing can run and the call has not returned; parked: %s", w.curOp, what, res.Deadlock))
		w.panicked = true
		bad = true
	}
	if len(res.Leaked) > 0 {
		w.fail(tag, "goroutine-leak", "goroutine left behind", fmt.Sprintf("%s%s: the call returned but %d goroutine(s) can never run again: %v", w.curOp, what, len(res.Leaked), res.Leaked))
		bad = true
	}
	for _, p := range res.Panics {
		w.fail(tag, "goroutine-panic", p, fmt.Sprintf("%s%s: panic in a goroutine the call started: %s", w.curOp, what, p))
		w.panicked = true
		bad = true
	}
	if res.RootPanic != nil {
		w.fail(tag, "panic", fmt.Sprint(res.RootPanic), fmt.Sprintf("%s%s: %v", w.curOp, what, res.RootPanic))
		w.panicked = true
		bad = true
	}
	return bad
}

// GC is the collector on a leash.
func (w *World) gc() {
	runtime.GC()
	w.St.GCs++
}
