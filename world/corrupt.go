package world

import (
	"fmt"

	"github.com/RoaringBitmap/roaring/v2"

	"verif/model"
	"verif/simio"
)

const numCorruptKinds = 9

var corruptNames = []string{"bitflip", "byte-overwrite", "sector-zero", "sector-garbage", "dup-range", "cut-range", "trailing", "structured", "header-bitflip"}

// corruptBytes applies a stored-byte fault of the given kind.
func corruptBytes(data []byte, kind int, seed uint64) ([]byte, string) {
	r := NewRng(seed)
	out := append([]byte(nil), data...)
	n := len(out)
	if n == 0 {
		return out, "empty"
	}
	where := "payload"
	switch kind {
	case 0:
		for i := 0; i <= r.Intn(3); i++ {
			k := r.Intn(n)
			out[k] ^= 1 << uint(r.Intn(8))
			where = regionName(data, k)
		}
	case 8:
		lim := n
		if lim > 64 {
			lim = 64
		}
		k := r.Intn(lim)
		out[k] ^= 1 << uint(r.Intn(8))
		where = regionName(data, k)
	case 1:
		k := r.Intn(n)
		if r.Chance(2, 3) && n > 24 {
			k = r.Intn(24)
		}
		out[k] = []byte{0, 0xFF, 0x80, 0x7F, 1, 0xFE}[r.Intn(6)]
		where = regionName(data, k)
	case 2, 3:
		s := (r.Intn(n) / 512) * 512
		for i := s; i < s+512 && i < n; i++ {
			if kind == 2 {
				out[i] = 0
			} else {
				out[i] = byte(r.U64())
			}
		}
		where = regionName(data, s)
	case 4:
		s := r.Intn(n)
		l := 1 + r.Intn(64)
		if s+l > n {
			l = n - s
		}
		out = append(out[:s+l:s+l], append(append([]byte(nil), data[s:s+l]...), data[s+l:]...)...)
		where = regionName(data, s)
	case 5:
		s := r.Intn(n)
		l := 1 + r.Intn(64)
		if s+l > n {
			l = n - s
		}
		out = append(out[:s:s], data[s+l:]...)
		where = regionName(data, s)
	case 6:
		for i := 0; i < 1+r.Intn(40); i++ {
			out = append(out, byte(r.U64()))
		}
		where = "trailing"
	}
	return out, where
}

var structNames = []string{"run-to-end", "run-to-end", "swap-keys", "dup-key", "card+1", "card-1", "card-zero", "array-as-bitmap-card", "array-unsorted", "array-dup", "run-overlap", "run-adjacent", "run-wrap", "run-none", "nrun-too-big", "bad-cookie", "size-huge", "size-off", "offsets-garbage", "runflag-on-array", "bitmap-card-mismatch", "bitmap-small-card", "run-unsorted", "run-cookie-no-runs", "run-as-array-rekind", "key-desc"}

// structuredCorrupt parses a valid portable stream with the independent codec,
// breaks one field, and re-encodes. Returns nil if not applicable.
func structuredCorrupt(data []byte, seed uint64) ([]byte, string) {
	s, _, err := model.Decode32(data)
	if err != nil || len(s.Chunks) == 0 {
		return nil, ""
	}
	r := NewRng(seed)
	pick := func(kind int) int {
		var c []int
		for i, ch := range s.Chunks {
			if kind < 0 || ch.Kind == kind {
				c = append(c, i)
			}
		}
		if len(c) == 0 {
			return -1
		}
		return c[r.Intn(len(c))]
	}
	for tries := 0; tries < 12; tries++ {
		m := r.Intn(len(structNames))
		name := structNames[m]
		ok := false
		switch name {
		case "swap-keys":
			if len(s.Chunks) >= 2 {
				i := r.Intn(len(s.Chunks) - 1)
				s.Chunks[i].Key, s.Chunks[i+1].Key = s.Chunks[i+1].Key, s.Chunks[i].Key
				ok = true
			}
		case "dup-key":
			if len(s.Chunks) >= 2 {
				i := r.Intn(len(s.Chunks) - 1)
				s.Chunks[i+1].Key = s.Chunks[i].Key
				ok = true
			}
		case "key-desc":
			if len(s.Chunks) >= 2 {
				i := 1 + r.Intn(len(s.Chunks)-1)
				s.Chunks[i].Key = s.Chunks[0].Key - 1
				ok = true
			}
		case "card+1", "card-1", "card-zero":
			// for runs the field is ignored by decoders; for arrays/bitmaps it drives the payload length
			if i := pick(-1); i >= 0 {
				switch name {
				case "card+1":
					s.Chunks[i].CardField++
				case "card-1":
					s.Chunks[i].CardField--
				default:
					s.Chunks[i].CardField = 0
				}
				ok = true
			}
		case "array-as-bitmap-card":
			if i := pick(1); i >= 0 {
				s.Chunks[i].CardField = uint16(4096 + r.Intn(1000))
				ok = true
			}
		case "array-unsorted":
			if i := pick(1); i >= 0 && len(s.Chunks[i].Vals) >= 2 {
				v := s.Chunks[i].Vals
				j := r.Intn(len(v) - 1)
				v[j], v[j+1] = v[j+1], v[j]
				ok = true
			}
		case "array-dup":
			if i := pick(1); i >= 0 && len(s.Chunks[i].Vals) >= 2 {
				v := s.Chunks[i].Vals
				j := r.Intn(len(v) - 1)
				v[j+1] = v[j]
				ok = true
			}
		case "run-overlap", "run-adjacent", "run-unsorted":
			if i := pick(2); i >= 0 && len(s.Chunks[i].Runs) >= 2 {
				rs := s.Chunks[i].Runs
				j := r.Intn(len(rs) - 1)
				switch name {
				case "run-overlap":
					rs[j][1] = rs[j+1][0] - rs[j][0] + uint16(r.Intn(3)) // reaches into the next run
				case "run-adjacent":
					rs[j][1] = rs[j+1][0] - rs[j][0] - 1
				default:
					rs[j], rs[j+1] = rs[j+1], rs[j]
				}
				ok = true
			}
		case "run-to-end":
			// the length field of a non-final run maxed out to the end of the chunk
			if i := pick(2); i >= 0 && len(s.Chunks[i].Runs) >= 2 {
				rs := s.Chunks[i].Runs
				j := r.Intn(len(rs) - 1)
				rs[j][1] = uint16(65535 - int(rs[j][0]))
				ok = true
			}
		case "run-wrap":
			if i := pick(2); i >= 0 {
				rs := s.Chunks[i].Runs
				j := len(rs) - 1
				if r.Chance(1, 3) {
					j = r.Intn(len(rs))
				}
				rs[j][1] = uint16(65535-int(rs[j][0])) + 1 + uint16(r.Intn(5)) // start+length > 65535
				ok = true
			}
		case "run-none":
			if i := pick(2); i >= 0 {
				s.Chunks[i].Runs = nil
				ok = true
			}
		case "nrun-too-big":
			if i := pick(2); i >= 0 {
				v := uint16(len(s.Chunks[i].Runs) + 1 + r.Intn(1000))
				s.Chunks[i].NRunField = &v
				ok = true
			}
		case "bad-cookie":
			v := []uint32{0, 12345, 12348, 0xFFFFFFFF, 13766, 12347 | 0xFFFF<<16}[r.Intn(6)]
			s.CookieField = &v
			ok = true
		case "size-huge":
			if !s.RunCookie {
				v := []uint32{65537, 70000, 1 << 31, 0xFFFFFFFF, 65536}[r.Intn(5)]
				s.SizeField = &v
				ok = true
			}
		case "size-off":
			if !s.RunCookie {
				v := uint32(len(s.Chunks) + []int{-1, 1, 2}[r.Intn(3)])
				s.SizeField = &v
				ok = true
			} else {
				n := len(s.Chunks) + []int{-1, 1}[r.Intn(2)]
				if n >= 1 {
					v := uint32(12347) | uint32(n-1)<<16
					s.CookieField = &v
					ok = true
				}
			}
		case "offsets-garbage":
			s.Offsets = make([]uint32, len(s.Chunks))
			for i := range s.Offsets {
				s.Offsets[i] = uint32(r.U64())
			}
			ok = true
		case "runflag-on-array":
			if i := pick(1); i >= 0 && len(s.Chunks[i].Vals) >= 3 {
				// reinterpret: array payload read as (nruns, pairs...)
				c := &s.Chunks[i]
				s.RunCookie = true
				c.Kind = 2
				nr := c.Vals[0]
				c.NRunField = &nr
				c.Runs = nil
				for j := 1; j+1 < len(c.Vals); j += 2 {
					c.Runs = append(c.Runs, [2]uint16{c.Vals[j], c.Vals[j+1]})
				}
				ok = true
			}
		case "bitmap-card-mismatch":
			if i := pick(0); i >= 0 {
				c := &s.Chunks[i]
				c.Words[r.Intn(1024)] ^= 1 << uint(r.Intn(64)) // payload changes, cached cardinality does not
				ok = true
			}
		case "bitmap-small-card":
			if i := pick(0); i >= 0 {
				c := &s.Chunks[i]
				// payload with few bits but a card field that still says "bitmap"
				for j := range c.Words {
					c.Words[j] = 0
				}
				c.Words[3] = 0xFF
				ok = true
			}
		case "run-cookie-no-runs":
			if !s.RunCookie {
				s.RunCookie = true // legal per spec
				ok = true
			}
		case "run-as-array-rekind":
			if i := pick(2); i >= 0 {
				// legal: same content as array/bitmap is fine; illegal variant: drop flag but keep run payload
				c := &s.Chunks[i]
				c.Kind = 1
				c.Vals = nil
				for _, rr := range c.Runs {
					c.Vals = append(c.Vals, rr[0], rr[1])
				}
				ok = true
			}
		}
		if ok {
			b, _ := s.Encode()
			return b, "structured:" + name
		}
	}
	return nil, ""
}

func execCorrupt(w *World, st *Step) {
	src := w.B[st.S[1]]
	e := int(st.A[0])
	kind := int(st.A[1])
	seed := st.A[2]
	var data []byte
	var err error
	if w.try("C05", func() {
		if e == 5 {
			data, err = src.BM.Freeze()
		} else {
			data, err = src.BM.ToBytes()
		}
	}) || err != nil {
		return
	}
	var bad []byte
	var what, where string
	if kind == 7 && e != 5 {
		bad, what = structuredCorrupt(data, seed)
		where = "field"
	}
	if bad == nil && kind == 7 && e == 5 {
		bad, what = frozenStructured(data, seed)
		where = "field"
	}
	if bad == nil {
		if kind == 7 {
			kind = int(seed % 7)
		}
		bad, where = corruptBytes(data, kind, seed)
		what = corruptNames[kind]
		if e == 5 {
			where = frozenRegionName(data, bad)
		}
	}
	w.St.Faults["corrupt-"+what]++
	dst := roaring.New()
	var derr error
	var ri int
	pan := w.try("C10", func() { _, derr, ri, _ = w.decode(dst, bad, e, seed, "C10") })
	// the region (if any) belongs to this step only unless the bitmap joins the world
	release := func() {
		if ri >= 0 && ri < len(w.Regs) && w.Regs[ri] != nil {
			w.Regs[ri].Free()
			w.Regs[ri] = nil
		}
	}
	if pan {
		w.disk(rEntryNames[e], what, where, "panic")
		release()
		return
	}
	if derr != nil {
		w.disk(rEntryNames[e], what, where, "error")
		release()
		return
	}
	var verr error
	if w.try("C10", func() { verr = dst.Validate() }) {
		w.disk(rEntryNames[e], what, where, "validate-panic")
		release()
		return
	}
	if verr != nil {
		w.disk(rEntryNames[e], what, where, "accepted-invalid")
		release()
		return
	}
	w.disk(rEntryNames[e], what, where, "accepted-valid")
	w.probe("corrupt-accepted-and-validated")
	// Validate()==nil: it must be a genuine set.
	m, msg := w.battery(dst, st.S[1])
	if m == nil && msg == "" {
		w.disk(rEntryNames[e], what, where, "accepted-valid-giant-unchecked")
		release()
		return
	}
	if msg != "" {
		w.fail("C10", "validated-not-a-set", msg, fmt.Sprintf("%s accepted a %s-corrupted stream (%s), Validate()==nil, but: %s", rEntryNames[e], what, where, msg))
		release()
		return
	}
	// it joins the world - unless it is valid but not in the form the library itself produces
	// (Validate accepts a bitmap chunk of exactly 4096 values): C09's invariant walk speaks of
	// library-made bitmaps only, and what is derived from such an object inherits its form
	if wk := walk32(dst); wk != "" {
		w.probe("validated-but-not-canonical: " + wk)
		release()
		return
	}
	var regions []int
	if ri >= 0 {
		regions = []int{ri}
		w.Regs[ri].Prop = "C08"
	}
	w.setResult(st.S[0], dst, m, regions, "decoded-corrupt:"+rEntryNames[e])
	w.B[st.S[0]].ZeroCopy = ri >= 0
	w.B[st.S[0]].Frozen = e == 5
}

// frozenStructured breaks one field of a valid frozen stream (type code, count, key, header).
func frozenStructured(data []byte, seed uint64) ([]byte, string) {
	_, L, err := model.ParseFrozen(data)
	if err != nil || L.N == 0 {
		return nil, ""
	}
	r := NewRng(seed)
	out := append([]byte(nil), data...)
	i := r.Intn(L.N)
	switch r.Intn(9) {
	case 7, 8:
		// a well-laid-out image whose typecodes disagree with the cardinality rule: an array
		// of more than 4096 values, a bitmap of at most 4096 (the frozen format stores the kind,
		// the portable format derives it: such a bitmap does not survive a round trip)
		set, _, perr := model.ParseFrozen(data)
		if perr != nil {
			return nil, ""
		}
		s := model.EncodeSet32(set, false, func(uint16, int) int { return 0 })
		// one fabricated chunk in the band around the threshold, at a key of its own
		n := []int{4097, 4098, 4100, 4112, 4113, 4500, 4096, 4095, 9000}[r.Intn(9)]
		key := uint16(r.Intn(65536))
		at := 0
		for at < len(s.Chunks) && s.Chunks[at].Key < key {
			at++
		}
		if at < len(s.Chunks) && s.Chunks[at].Key == key {
			return nil, ""
		}
		vals := map[uint16]bool{}
		for len(vals) < n {
			vals[uint16(r.Intn(65536))] = true
		}
		c := model.SChunk{Key: key, Kind: 0, Words: make([]uint64, 1024), CardField: uint16(n - 1)}
		for v := range vals {
			c.Words[v>>6] |= 1 << (v & 63)
		}
		what := "frozen:array-above-4096"
		if n > 4096 {
			c.Rekind(1)
		} else {
			c.Rekind(0)
			what = "frozen:bitmap-at-most-4096"
		}
		s.Chunks = append(s.Chunks[:at], append([]model.SChunk{c}, s.Chunks[at:]...)...)
		return model.EncodeFrozen(s), what
	case 0:
		out[L.Types[0]+i] = []byte{1, 2, 3}[r.Intn(3)]
		return out, "frozen:typecode-swapped"
	case 1:
		out[L.Types[0]+i] = []byte{0, 4, 255}[r.Intn(3)]
		return out, "frozen:typecode-illegal"
	case 2:
		out[L.Counts[0]+2*i] += byte(1 + r.Intn(3))
		return out, "frozen:count+"
	case 3:
		out[L.Counts[0]+2*i], out[L.Counts[0]+2*i+1] = 0xFF, 0xFF
		return out, "frozen:count-max"
	case 4:
		if L.N >= 2 {
			j := r.Intn(L.N - 1)
			a, b := L.Keys[0]+2*j, L.Keys[0]+2*j+2
			out[a], out[a+1], out[b], out[b+1] = out[b], out[b+1], out[a], out[a+1]
			return out, "frozen:keys-swapped"
		}
	case 5:
		if L.N >= 2 {
			j := r.Intn(L.N - 1)
			a, b := L.Keys[0]+2*j, L.Keys[0]+2*j+2
			out[b], out[b+1] = out[a], out[a+1]
			return out, "frozen:key-duplicated"
		}
	default:
		// header: chunk count off by one (cookie kept)
		h := uint32(out[L.Hdr[0]]) | uint32(out[L.Hdr[0]+1])<<8 | uint32(out[L.Hdr[0]+2])<<16 | uint32(out[L.Hdr[0]+3])<<24
		if r.Bool() {
			h += 1 << 15
		} else {
			h -= 1 << 15
		}
		out[L.Hdr[0]], out[L.Hdr[0]+1], out[L.Hdr[0]+2], out[L.Hdr[0]+3] = byte(h), byte(h>>8), byte(h>>16), byte(h>>24)
		return out, "frozen:header-count"
	}
	return nil, ""
}

func frozenRegionName(orig, bad []byte) string {
	_, L, err := model.ParseFrozen(orig)
	if err != nil {
		return "?"
	}
	k := 0
	for k < len(orig) && k < len(bad) && orig[k] == bad[k] {
		k++
	}
	switch {
	case k >= L.Hdr[0]:
		return "header"
	case k >= L.Types[0]:
		return "typecodes"
	case k >= L.Counts[0]:
		return "counts"
	case k >= L.Keys[0]:
		return "keys"
	case k >= L.Arrays[0]:
		return "arrays"
	case k >= L.Runs[0]:
		return "runs"
	}
	return "bitsets"
}

// battery checks that a validated bitmap is a genuine set: all queries and
// iterators mutually consistent, exact algebra with another bitmap, and a
// re-serialisation round trip. Returns the model rebuilt from ToArray and ""
// when everything agrees.
func (w *World) battery(bm *roaring.Bitmap, other int) (m *model.Set32, msg string) {
	defer func() {
		if r := recover(); r != nil {
			if addr, ok := faultAddr(r); ok {
				msg = fmt.Sprintf("memory fault at %#x while using the bitmap", addr)
				return
			}
			msg = fmt.Sprintf("panic while using the bitmap: %v", r)
		}
	}()
	if bm.GetCardinality() > GiantCard {
		return nil, "" // too large for the element-wise battery; counted, not judged
	}
	arr := bm.ToArray()
	for i := 1; i < len(arr); i++ {
		if arr[i-1] >= arr[i] {
			return nil, fmt.Sprintf("ToArray not strictly increasing at index %d: %d then %d", i, arr[i-1], arr[i])
		}
	}
	if bm.GetCardinality() != uint64(len(arr)) {
		return nil, fmt.Sprintf("GetCardinality=%d but ToArray has %d elements", bm.GetCardinality(), len(arr))
	}
	if bm.IsEmpty() != (len(arr) == 0) {
		return nil, "IsEmpty disagrees with ToArray"
	}
	m = model.FromSlice32(arr)
	// iterators
	it := bm.Iterator()
	for i := 0; i < len(arr); i++ {
		if !it.HasNext() {
			return nil, "Iterator ends early"
		}
		if v := it.Next(); v != arr[i] {
			return nil, fmt.Sprintf("Iterator yields %d at %d, ToArray has %d", v, i, arr[i])
		}
	}
	if it.HasNext() {
		return nil, "Iterator yields extra elements"
	}
	rit := bm.ReverseIterator()
	for i := len(arr) - 1; i >= 0; i-- {
		if !rit.HasNext() {
			return nil, "ReverseIterator ends early"
		}
		if v := rit.Next(); v != arr[i] {
			return nil, fmt.Sprintf("ReverseIterator yields %d, want %d", v, arr[i])
		}
	}
	if rit.HasNext() {
		return nil, "ReverseIterator yields extra elements"
	}
	mit := bm.ManyIterator()
	buf := make([]uint32, 1000)
	pos := 0
	for {
		n := mit.NextMany(buf)
		if n == 0 {
			break
		}
		for _, v := range buf[:n] {
			if pos >= len(arr) || v != arr[pos] {
				return nil, "ManyIterator disagrees with ToArray"
			}
			pos++
		}
	}
	if pos != len(arr) {
		return nil, "ManyIterator ends early"
	}
	// point queries
	step := len(arr)/3000 + 1
	for i := 0; i < len(arr); i += step {
		v := arr[i]
		if !bm.Contains(v) {
			return nil, fmt.Sprintf("Contains(%d)=false for a listed element", v)
		}
		if rk := bm.Rank(v); rk != uint64(i+1) {
			return nil, fmt.Sprintf("Rank(%d)=%d want %d", v, rk, i+1)
		}
		if sv, err := bm.Select(uint32(i)); err != nil || sv != v {
			return nil, fmt.Sprintf("Select(%d)=%d,%v want %d", i, sv, err, v)
		}
		if v+1 != 0 && !m.Contains(v+1) && bm.Contains(v+1) {
			return nil, fmt.Sprintf("Contains(%d)=true for an unlisted value", v+1)
		}
		if nv := bm.NextValue(v); nv != int64(v) {
			return nil, fmt.Sprintf("NextValue(%d)=%d", v, nv)
		}
		if pv := bm.PreviousValue(v); pv != int64(v) {
			return nil, fmt.Sprintf("PreviousValue(%d)=%d", v, pv)
		}
	}
	if len(arr) > 0 {
		if bm.Minimum() != arr[0] || bm.Maximum() != arr[len(arr)-1] {
			return nil, "Minimum/Maximum disagree with ToArray"
		}
		if _, err := bm.Select(uint32(len(arr))); err == nil {
			return nil, "Select(cardinality) did not fail"
		}
		lo, hi := uint64(arr[0]), uint64(arr[len(arr)-1])+1
		if c := bm.CardinalityInRange(lo, hi); c != uint64(len(arr)) {
			return nil, fmt.Sprintf("CardinalityInRange(min,max+1)=%d want %d", c, len(arr))
		}
		mid := uint64(arr[len(arr)/2])
		if c := bm.CardinalityInRange(lo, mid); c != uint64(len(arr)/2) {
			return nil, fmt.Sprintf("CardinalityInRange(min,median)=%d want %d", c, len(arr)/2)
		}
	}
	// every value inside its chunk's range: keys of the hook view vs values
	func() {
		defer func() { recover() }()
		for i, c := range bm.VerifChunks() {
			_ = i
			if m.ChunkCard(c.Key) != c.Card {
				msg = fmt.Sprintf("chunk %#x reports %d values, contents have %d", c.Key, c.Card, m.ChunkCard(c.Key))
			}
		}
	}()
	if msg != "" {
		return nil, msg
	}
	// exact algebra with another valid bitmap
	if other >= 0 {
		o := w.B[other]
		if ok, d := eq32(roaring.Or(bm, o.BM), model.Or32(m, o.M)); !ok {
			return nil, "Or with a valid bitmap is wrong: " + d
		}
		if ok, d := eq32(roaring.And(bm, o.BM), model.And32(m, o.M)); !ok {
			return nil, "And with a valid bitmap is wrong: " + d
		}
		if ok, d := eq32(roaring.Xor(o.BM, bm), model.Xor32(o.M, m)); !ok {
			return nil, "Xor with a valid bitmap is wrong: " + d
		}
		if ok, d := eq32(roaring.AndNot(bm, o.BM), model.AndNot32(m, o.M)); !ok {
			return nil, "AndNot with a valid bitmap is wrong: " + d
		}
		c := bm.Clone()
		c.Or(o.BM)
		if ok, d := eq32(c, model.Or32(m, o.M)); !ok {
			return nil, "in-place Or with a valid bitmap is wrong: " + d
		}
	}
	// re-serialise
	data, err := bm.ToBytes()
	if err != nil {
		return nil, fmt.Sprintf("re-serialising fails: %v", err)
	}
	back := roaring.New()
	if _, err := back.ReadFrom(&simio.ChunkedReader{Data: data, ErrAt: -1}); err != nil {
		return nil, fmt.Sprintf("re-serialised bytes do not decode: %v", err)
	}
	if ok, d := eq32(back, m); !ok {
		return nil, "re-serialisation does not round-trip: " + d
	}
	if !back.Equals(bm) {
		return nil, "Equals(false) after round trip"
	}
	return m, ""
}
