package world

// Ext holds the non-B32 population: cursors, 64-bit bitmaps, BSIs.
type Ext struct {
	w *World
}

func newExt(w *World) *Ext { return &Ext{w: w} }

func (x *Ext) dropCursorsOf(slot int) {}

func (x *Ext) afterStep(tag string) {}
