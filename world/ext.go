package world

import (
	"github.com/RoaringBitmap/roaring/v2/roaring64"

	"verif/model"
)

// Ext holds the non-B32 population: cursors, 64-bit bitmaps, BSIs.
type Ext struct {
	w       *World
	Cur     [numCursors]*Cursor
	B64     []*Obj64
	outs64  map[int]bool
	Buckets []uint32

	// bit-sliced indexes (opsbsi.go)
	BSI64   []*ObjBSI64
	BSI32   []*ObjBSI32
	outsBSI map[int]bool // outputs of the current step (family offset + slot)
	qBSI    map[int]bool // indexes the current step only queried
	BCols   []uint64     // column-id cluster bases of this history (generation only)
}

func newExt(w *World) *Ext {
	x := &Ext{w: w, outs64: map[int]bool{}}
	for i := 0; i < numB64; i++ {
		x.B64 = append(x.B64, &Obj64{BM: roaring64.New(), M: model.NewSet64(), Prov: "new"})
	}
	x.initBSI()
	return x
}

// dropCursorsOf invalidates the cursors pinned to a slot (documented: an
// iterator is invalid once its bitmap is modified).
func (x *Ext) dropCursorsOf(slot int) {
	for i, c := range x.Cur {
		if c != nil && c.Slot == slot {
			x.Cur[i] = nil
		}
	}
}

// dropRegion invalidates whatever depends on a region that goes away.
func (x *Ext) dropRegion(ri int) {
	for i, c := range x.Cur {
		if c == nil {
			continue
		}
		for _, r := range x.w.B[c.Slot].Regions {
			if r == ri {
				x.Cur[i] = nil
			}
		}
	}
}

func (x *Ext) afterStep(tag string) {
	x.after64(tag)
	x.afterBSI(tag)
}
