package world

// Ext holds the non-B32 population: cursors, 64-bit bitmaps, BSIs.
type Ext struct {
	w   *World
	Cur [numCursors]*Cursor
}

func newExt(w *World) *Ext { return &Ext{w: w} }

// dropCursorsOf invalidates the cursors pinned to a slot (documented: an
// iterator is invalid once its bitmap is modified).
func (x *Ext) dropCursorsOf(slot int) {
	for i, c := range x.Cur {
		if c != nil && c.Slot == slot {
			x.Cur[i] = nil
		}
	}
}

// dropRegion invalidates whatever depends on a region that goes away.
func (x *Ext) dropRegion(ri int) {
	for i, c := range x.Cur {
		if c == nil {
			continue
		}
		for _, r := range x.w.B[c.Slot].Regions {
			if r == ri {
				x.Cur[i] = nil
			}
		}
	}
}

func (x *Ext) afterStep(tag string) {}
