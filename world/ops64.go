package world

import (
	"encoding/base64"
	"fmt"
	"sort"

	"github.com/RoaringBitmap/roaring/v2"
	"github.com/RoaringBitmap/roaring/v2/roaring64"

	"verif/model"
	"verif/simio"
)

// Obj64 is a 64-bit bitmap with its model.
type Obj64 struct {
	BM      *roaring64.Bitmap
	M       *model.Set64
	Prov    string
	NoCopy  bool // built by a documented no-copy constructor: excluded from independence checks
	Regions []int
}

const numB64 = 4

var bucketPool = []uint32{0, 1, 2, 0x7FFFFFFF, 0x80000000, 0xFFFFFFFE, 0xFFFFFFFF}

func (x *Ext) bucketKey(r *Rng) uint32 {
	if len(x.Buckets) == 0 {
		n := 2 + r.Intn(3)
		for len(x.Buckets) < n {
			if r.Chance(3, 4) {
				x.Buckets = append(x.Buckets, bucketPool[r.Intn(len(bucketPool))])
			} else {
				x.Buckets = append(x.Buckets, uint32(r.U64()))
			}
		}
	}
	if r.Chance(1, 10) {
		b := x.Buckets[r.Intn(len(x.Buckets))]
		if r.Bool() {
			return b + 1
		}
		return b - 1
	}
	return x.Buckets[r.Intn(len(x.Buckets))]
}

func (w *World) value64(r *Rng, b int) uint64 {
	o := w.X.B64[b]
	if !o.M.IsEmpty() && r.Chance(1, 2) {
		bs := o.M.Buckets()
		h := bs[r.Intn(len(bs))]
		in := o.M.Bucket(h)
		ks := in.Keys()
		k := ks[r.Intn(len(ks))]
		c := in.ChunkWords(k)
		start := r.Intn(1024)
		for i := 0; i < 1024; i++ {
			wd := c[(start+i)%1024]
			if wd != 0 {
				bit := 0
				for wd&1 == 0 {
					wd >>= 1
					bit++
				}
				v := uint64(h)<<32 | uint64(k)<<16 | uint64(((start+i)%1024)*64+bit)
				switch r.Intn(4) {
				case 0:
					return v + 1
				case 1:
					return v - 1
				}
				return v
			}
		}
	}
	return uint64(w.X.bucketKey(r))<<32 | uint64(w.key(r))<<16 | uint64(low(r))
}

// range64 picks [start,end): inside a bucket, or crossing a 2^32 boundary with small extents.
func (w *World) range64(r *Rng) (uint64, uint64) {
	h := uint64(w.X.bucketKey(r))
	if r.Chance(1, 300) && h < 0xFFFFFFF0 {
		// one to three whole buckets, plus ragged edges
		s := h<<32 - uint64(r.Intn(70000))
		if h == 0 {
			s = uint64(r.Intn(70000))
		}
		return s, (h+uint64(1+r.Intn(3)))<<32 + uint64(r.Intn(70000))
	}
	switch r.Intn(5) {
	case 0, 1: // inside one bucket, 32-bit style
		s, e := w.rangeArgs(r)
		if e-s > 400000 {
			e = s + 400000
		}
		if e > 1<<32-1 && h == 0xFFFFFFFF {
			e = 1<<32 - 1
			if s >= e {
				s = e - 1
			}
		}
		return h<<32 | s, h<<32 + e
	case 2: // crosses the boundary into the next bucket
		if h == 0xFFFFFFFF {
			h--
		}
		before := uint64(1 + r.Intn(70000))
		after := uint64(r.Intn(70000))
		return (h+1)<<32 - before, (h+1)<<32 + after
	case 3: // ends exactly on the boundary
		if h == 0xFFFFFFFF {
			h--
		}
		before := uint64(1 + r.Intn(70000))
		return (h+1)<<32 - before, (h + 1) << 32
	default: // starts exactly on the boundary
		return h << 32, h<<32 + uint64(1+r.Intn(140000))
	}
}

func vals64(h uint32, key uint16, shape, n int, seed uint64) []uint64 {
	if shape == 8 {
		// exactly n buckets of one value each (n up to 13000): bucket counts that equal the
		// format's own magic numbers
		if n > 13000 {
			n = 13000
		}
		out := make([]uint64, 0, n)
		lo := uint64(key)<<16 | (seed & 0xFFFF)
		for i := 0; i < n; i++ {
			hh := (uint64(h) + uint64(i)) & 0xFFFFFFFF
			out = append(out, hh<<32|lo)
		}
		return out
	}
	if shape == 7 {
		// one value in each of n consecutive buckets: long bucket tables
		if n > 400 {
			n = 400
		}
		out := make([]uint64, 0, n)
		lo := uint64(key)<<16 | (seed & 0xFFFF)
		for i := 0; i < n; i++ {
			hh := uint64(h) + uint64(i)
			if hh > 0xFFFFFFFF {
				break
			}
			out = append(out, hh<<32|lo)
		}
		return out
	}
	if shape == 6 {
		// a short burst of consecutive values in each of several consecutive buckets
		// (one tiny run chunk per bucket once run-optimised)
		nb := 2 + int(seed>>8)%8
		out := make([]uint64, 0, nb*8)
		for i := 0; i < nb; i++ {
			hh := uint64(h) + uint64(i)
			if hh > 0xFFFFFFFF {
				break
			}
			lo := uint64(key)<<16 | ((seed >> 16) & 0xFFF0)
			for j := uint64(0); j < 4+(seed>>20)%6; j++ {
				out = append(out, hh<<32|(lo+j))
			}
		}
		return out
	}
	v32 := Vals(key, shape, n, seed)
	out := make([]uint64, len(v32))
	r := NewRng(seed ^ 0x5151)
	spread := shape == 4
	for i, v := range v32 {
		hh := uint64(h)
		if spread && r.Chance(1, 3) {
			hh++ // a few values in the next bucket: bucket switches inside AddMany
		}
		out[i] = (hh&0xFFFFFFFF)<<32 | uint64(v)
	}
	return out
}

func eq64(bm *roaring64.Bitmap, m *model.Set64) (ok bool, detail string) {
	defer func() {
		if r := recover(); r != nil {
			if addr, isFault := faultAddr(r); isFault {
				ok, detail = false, fmt.Sprintf("FAULT@%#x memory fault while reading contents: %v", addr, r)
				return
			}
			ok, detail = false, fmt.Sprintf("panic while reading contents: %v", r)
		}
	}()
	want := m.Card()
	got := bm.GetCardinality()
	if want > GiantCard {
		// universe-scale: bucket by bucket through the hook's read-only view, each bucket
		// with the 32-bit comparison (which itself goes chunk-wise when large)
		if got != want {
			return false, fmt.Sprintf("cardinality: GetCardinality=%d model=%d", got, want)
		}
		bs := bm.VerifBuckets()
		keys := m.Buckets()
		if len(bs) != len(keys) {
			return false, fmt.Sprintf("%d buckets, model has %d", len(bs), len(keys))
		}
		var before uint64
		for i, h := range keys {
			if bs[i].Key != h || bs[i].Inner == nil {
				return false, fmt.Sprintf("bucket %d has key %#x, model %#x", i, bs[i].Key, h)
			}
			if ok, d := eq32(bs[i].Inner, m.Bucket(h)); !ok {
				return false, fmt.Sprintf("bucket %#x: %s", h, d)
			}
			probe := uint64(h)<<32 | 0x12345
			if bm.Contains(probe) != m.Contains(probe) {
				return false, fmt.Sprintf("Contains(%#x) wrong", probe)
			}
			// positional queries at the edges of every bucket: the indices of a set this large
			// do not fit in 32 bits
			b := m.Bucket(h)
			c := b.Card()
			lo, _ := b.Min()
			hi, _ := b.Max()
			vlo, vhi := uint64(h)<<32|uint64(lo), uint64(h)<<32|uint64(hi)
			if g := bm.Rank(vlo); g != before+1 {
				return false, fmt.Sprintf("Rank(%#x)=%d want %d", vlo, g, before+1)
			}
			if g := bm.Rank(vhi); g != before+c {
				return false, fmt.Sprintf("Rank(%#x)=%d want %d", vhi, g, before+c)
			}
			if g, err := bm.Select(before); err != nil || g != vlo {
				return false, fmt.Sprintf("Select(%d)=%#x,%v want %#x", before, g, err, vlo)
			}
			if g, err := bm.Select(before + c - 1); err != nil || g != vhi {
				return false, fmt.Sprintf("Select(%d)=%#x,%v want %#x", before+c-1, g, err, vhi)
			}
			before += c
		}
		if g, err := bm.Select(want); err == nil {
			return false, fmt.Sprintf("Select(%d) on %d elements returned %#x instead of an error", want, want, g)
		}
		if g, lim := bm.Minimum(), bm.Maximum(); len(keys) > 0 {
			b0, b1 := m.Bucket(keys[0]), m.Bucket(keys[len(keys)-1])
			mn, _ := b0.Min()
			mx, _ := b1.Max()
			if g != uint64(keys[0])<<32|uint64(mn) || lim != uint64(keys[len(keys)-1])<<32|uint64(mx) {
				return false, fmt.Sprintf("Minimum/Maximum = %#x/%#x wrong", g, lim)
			}
		}
		return true, ""
	}
	if got > 1<<28 {
		return false, fmt.Sprintf("cardinality %d absurd (want %d)", got, want)
	}
	arr := bm.ToArray()
	if uint64(len(arr)) != want || got != want {
		return false, fmt.Sprintf("cardinality: GetCardinality=%d len(ToArray)=%d model=%d", got, len(arr), want)
	}
	i := 0
	good := true
	var bad string
	m.Each(func(x uint64) bool {
		if arr[i] != x {
			good = false
			bad = fmt.Sprintf("element %d: got %d (%#x) want %d (%#x)", i, arr[i], arr[i], x, x)
			return false
		}
		i++
		return true
	})
	if !good {
		return false, bad
	}
	if bm.IsEmpty() != (want == 0) {
		return false, fmt.Sprintf("IsEmpty=%v with %d elements", bm.IsEmpty(), want)
	}
	return true, ""
}

func (w *World) rebuild64(i int) {
	o := w.X.B64[i]
	cow := false
	func() {
		defer func() { recover() }()
		cow = o.BM.GetCopyOnWrite()
	}()
	bm := buildFromModel64(o.M)
	if cow {
		bm.SetCopyOnWrite(true)
	}
	w.X.B64[i] = &Obj64{BM: bm, M: o.M, Prov: "rebuilt"}
}

// buildFromModel64 constructs a 64-bit bitmap holding exactly m through a clean route.
func buildFromModel64(m *model.Set64) *roaring64.Bitmap {
	bm := roaring64.New()
	if m.Card() <= GiantCard {
		bm.AddMany(m.Slice())
		return bm
	}
	for _, h := range m.Buckets() {
		b := m.Bucket(h)
		ks := b.Keys()
		for i := 0; i < len(ks); i++ {
			k := ks[i]
			base := uint64(h)<<32 | uint64(k)<<16
			if b.IsFullChunk(k) {
				j := i
				for j+1 < len(ks) && ks[j+1] == ks[j]+1 && b.IsFullChunk(ks[j+1]) {
					j++
				}
				end := uint64(h)<<32 + (uint64(ks[j])+1)<<16 // may be the first value of the next bucket
				if end == 0 {
					// the very top of the 64-bit range cannot be an exclusive end
					bm.AddRange(base, ^uint64(0))
					bm.Add(^uint64(0))
				} else {
					bm.AddRange(base, end)
				}
				i = j
				continue
			}
			var vals []uint64
			b.EachInChunk(k, func(x uint32) bool { vals = append(vals, uint64(h)<<32|uint64(x)); return true })
			bm.AddMany(vals)
		}
	}
	return bm
}

func (w *World) out64(i int) { w.X.outs64[i] = true }

// setResult64 installs a fresh 64-bit result; regions are the caller-owned buffers it may
// still reference (inherited from its inputs: a derived bitmap shares flagged chunks).
func (w *World) setResult64(dst int, bm *roaring64.Bitmap, m *model.Set64, prov string, regions ...[]int) {
	if bm == nil {
		if !w.panicked {
			w.fail(w.curTag, "nil-result", "operation returned nil", w.curOp+" returned nil")
		}
		bm = buildFromModel64(m)
	}
	var rs []int
	for _, r := range regions {
		rs = unionRegions(rs, r)
	}
	w.X.B64[dst] = &Obj64{BM: bm, M: m, Prov: prov, Regions: w.liveRegions(rs)}
	w.out64(dst)
}

func slots64OK(w *World, st *Step, n, na int) bool {
	if len(st.S) < n || len(st.A) < na {
		return false
	}
	for _, s := range st.S {
		if s < 0 || s >= numB64 {
			return false
		}
	}
	return true
}

func (w *World) slot64(r *Rng) int { return r.Intn(numB64) }
func (w *World) nonEmpty64(r *Rng) int {
	for t := 0; t < 6; t++ {
		i := r.Intn(numB64)
		if !w.X.B64[i].M.IsEmpty() {
			return i
		}
	}
	return r.Intn(numB64)
}

func modelBin64(op int, a, b *model.Set64) *model.Set64 {
	switch op {
	case 0:
		return model.And64(a, b)
	case 1:
		return model.Or64(a, b)
	case 2:
		return model.Xor64(a, b)
	}
	return model.AndNot64(a, b)
}

// after64 evaluates the 64-bit invariants after a step.
func (x *Ext) after64(tag string) {
	w := x.w
	outs := make([]int, 0, len(x.outs64))
	for i := range x.outs64 {
		outs = append(outs, i)
	}
	sort.Ints(outs)
	for _, i := range outs {
		if w.panicked {
			w.rebuild64(i)
			continue
		}
		o := x.B64[i]
		if ok, d := eq64(o.BM, o.M); !ok {
			if !x.readFault64(i, d) {
				w.fail(tag, "contents", "result differs from model", fmt.Sprintf("64-bit slot %d after %s: %s", i, w.curOp, d))
			}
			w.rebuild64(i)
		}
	}
	for i, o := range x.B64 {
		if x.outs64[i] {
			continue
		}
		if ok, d := eq64(o.BM, o.M); !ok {
			if !x.readFault64(i, d) && !o.NoCopy {
				w.fail("C07", "bystander", "64-bit bitmap not involved as output changed", fmt.Sprintf("64-bit slot %d (%s) changed during %s: %s", i, o.Prov, w.curOp, d))
			}
			w.rebuild64(i)
		}
	}
	x.sharing64()
	for _, i := range outs {
		o := x.B64[i]
		var verr error
		if w.try("C18", func() { verr = o.BM.Validate() }) {
			w.rebuild64(i)
			continue
		}
		if verr != nil {
			if w.fail("C18", "validate", verr.Error(), fmt.Sprintf("64-bit slot %d (%s) after %s: Validate()=%v", i, o.Prov, w.curOp, verr)) {
				w.rebuild64(i)
			}
		}
	}
	x.outs64 = map[int]bool{}
}

// readFault64 attributes a memory fault met while reading a 64-bit bitmap (see World.readFault).
func (x *Ext) readFault64(slot int, detail string) bool {
	var addr uintptr
	if n, _ := fmt.Sscanf(detail, "FAULT@0x%x", &addr); n != 1 {
		return false
	}
	w := x.w
	o := x.B64[slot]
	if ri, reg := w.regionOf(addr); reg != nil {
		w.fail(reg.Prop, "region-fault", reg.StateName()+" "+o.Prov, fmt.Sprintf("reading 64-bit slot %d (%s) after %s faults at %#x inside region %d (%s, %s)", slot, o.Prov, w.curOp, addr, ri, reg.Kind, reg.StateName()))
		return true
	}
	w.fail(w.curTag, "panic", "memory fault outside regions while reading contents", detail)
	return true
}

// sharing64: an inner 32-bit bitmap reachable from two 64-bit bitmaps (or from a
// 64-bit bitmap and a 32-bit slot) without the flag; confirmed by a write probe.
func (x *Ext) sharing64() {
	w := x.w
	for i := 0; i < numB64; i++ {
		for j := i + 1; j < numB64; j++ {
			if x.B64[i].BM == x.B64[j].BM {
				w.fail("C07", "aliasing", "64-bit operation returned one of its inputs", fmt.Sprintf("64-bit slots %d and %d hold the same *Bitmap after %s", i, j, w.curOp))
				w.rebuild64(j)
				w.rebuild64(i)
				return
			}
		}
	}
	type ref struct {
		slot int
		b    roaring64.VerifBucket
	}
	seen := map[*roaring.Bitmap][]ref{}
	for i, o := range x.B64 {
		if o.NoCopy {
			continue
		}
		func() {
			defer func() { recover() }()
			for _, b := range o.BM.VerifBuckets() {
				if b.Inner != nil {
					seen[b.Inner] = append(seen[b.Inner], ref{i, b})
				}
			}
		}()
	}
	for _, rs := range seen {
		if len(rs) < 2 {
			continue
		}
		w.probe("shared-bucket-seen")
		for a := 0; a < len(rs); a++ {
			if rs[a].b.NeedCOW {
				continue
			}
			for b := 0; b < len(rs); b++ {
				if a == b || rs[a].slot == rs[b].slot {
					continue
				}
				w.probe("shared-bucket-unflagged")
				// write through a, look at b
				oa, ob := x.B64[rs[a].slot], x.B64[rs[b].slot]
				h := uint64(rs[a].b.Key) << 32
				var v uint64
				found := false
				for t := uint64(0); t < 1<<16; t++ {
					if !oa.M.Contains(h | t) {
						v, found = h|t, true
						break
					}
				}
				if !found {
					continue
				}
				hit := false
				w.try("C07", func() {
					oa.BM.Add(v)
					hit = ob.BM.Contains(v) != ob.M.Contains(v)
					oa.BM.Remove(v)
				})
				if hit {
					w.fail("C07", "interference", "64-bit: write through one bitmap visible in another", fmt.Sprintf("after %s, 64-bit slots %d (%s) and %d (%s) share bucket %#x unflagged in slot %d: Add(%d) on slot %d changed slot %d", w.curOp, rs[a].slot, oa.Prov, rs[b].slot, ob.Prov, rs[a].b.Key, rs[a].slot, v, rs[a].slot, rs[b].slot))
					w.rebuild64(rs[a].slot)
					w.rebuild64(rs[b].slot)
					return
				}
			}
		}
	}
}

var w64Names = []string{"WriteTo", "ToBytes", "MarshalBinary", "ToBase64"}
var r64Names = []string{"ReadFrom", "FromUnsafeBytes", "UnmarshalBinary", "FromBase64"}

func serialize64(bm *roaring64.Bitmap, e int) (data []byte, n int64, err error) {
	switch e {
	case 0:
		fw := &simio.FaultyWriter{}
		n, err = bm.WriteTo(fw)
		return fw.Data, n, err
	case 1:
		data, err = bm.ToBytes()
		return data, -1, err
	case 2:
		data, err = bm.MarshalBinary()
		return data, -1, err
	default:
		var s string
		s, err = bm.ToBase64()
		if err != nil {
			return nil, -1, err
		}
		data, err = base64.StdEncoding.DecodeString(s)
		return data, -1, err
	}
}

func (w *World) decode64(dst *roaring64.Bitmap, data []byte, e int, seed uint64, prop string, flush bool) (p int64, err error, ri int, pulled int) {
	ri, pulled = -1, -1
	switch e {
	case 0:
		tail := sentinel
		if flush {
			tail = nil
		}
		rd := &simio.ChunkedReader{Data: append(append([]byte(nil), data...), tail...), Sizes: chunkSizes(seed), ErrAt: -1, EOFWith: seed&1 == 1}
		p, err = dst.ReadFrom(rd)
		pulled = rd.Pulled
		scribble(rd.Data)
	case 1:
		var reg *simio.Region
		ri, reg = w.addRegion(data, "portable64", prop, 1)
		p, err = dst.FromUnsafeBytes(reg.Bytes())
	case 2:
		tmp := append([]byte(nil), data...)
		err = dst.UnmarshalBinary(tmp)
		scribble(tmp)
		p = -1
	default:
		p, err = dst.FromBase64(base64.StdEncoding.EncodeToString(data))
	}
	return
}

func init() {
	reg(&opDef{name: "add64", tag: "C17",
		gen: func(w *World, r *Rng) (Step, bool) {
			b := w.slot64(r)
			return Step{S: []int{b}, A: []uint64{w.value64(r, b), uint64(r.Intn(2))}}, true
		},
		valid: func(w *World, st *Step) bool { return slots64OK(w, st, 1, 2) },
		exec: func(w *World, st *Step) {
			o := w.X.B64[st.S[0]]
			v := st.A[0]
			want := o.M.Add(v)
			w.out64(st.S[0])
			w.try("C17", func() {
				if st.A[1] == 0 {
					o.BM.Add(v)
				} else if got := o.BM.CheckedAdd(v); got != want {
					w.fail("C17", "checked-result", "64-bit CheckedAdd boolean wrong", fmt.Sprintf("CheckedAdd(%d)=%v want %v", v, got, want))
				}
			})
		}})
	reg(&opDef{name: "remove64", tag: "C17",
		gen: func(w *World, r *Rng) (Step, bool) {
			b := w.nonEmpty64(r)
			return Step{S: []int{b}, A: []uint64{w.value64(r, b), uint64(r.Intn(2))}}, true
		},
		valid: func(w *World, st *Step) bool { return slots64OK(w, st, 1, 2) },
		exec: func(w *World, st *Step) {
			o := w.X.B64[st.S[0]]
			v := st.A[0]
			want := o.M.Remove(v)
			w.out64(st.S[0])
			if o.M.Bucket(uint32(v>>32)) == nil && want {
				w.probe("bucket-emptied-by-remove")
			}
			w.try("C17", func() {
				if st.A[1] == 0 {
					o.BM.Remove(v)
				} else if got := o.BM.CheckedRemove(v); got != want {
					w.fail("C17", "checked-result", "64-bit CheckedRemove boolean wrong", fmt.Sprintf("CheckedRemove(%d)=%v want %v", v, got, want))
				}
			})
		}})
	reg(&opDef{name: "addmany64", tag: "C17",
		gen: func(w *World, r *Rng) (Step, bool) {
			n := count(r)
			if n > 20000 {
				n = 20000
			}
			shape := r.Intn(numShapes)
			if shape == 7 && !r.Chance(1, 3) {
				shape = 0
			}
			return Step{S: []int{w.slot64(r)}, A: []uint64{uint64(w.X.bucketKey(r)), uint64(w.key(r)), uint64(shape), uint64(n), r.U64()}}, true
		},
		valid: func(w *World, st *Step) bool { return slots64OK(w, st, 1, 5) },
		exec: func(w *World, st *Step) {
			o := w.X.B64[st.S[0]]
			vals := vals64(uint32(st.A[0]), uint16(st.A[1]), int(st.A[2]), int(st.A[3]), st.A[4])
			for _, v := range vals {
				o.M.Add(v)
			}
			w.out64(st.S[0])
			w.try("C17", func() { o.BM.AddMany(vals) })
		}})
	range64op := func(name string, real func(bm *roaring64.Bitmap, s, e uint64), mod func(m *model.Set64, s, e uint64)) {
		reg(&opDef{name: name, tag: "C17",
			gen: func(w *World, r *Rng) (Step, bool) {
				s, e := w.range64(r)
				b := w.slot64(r)
				if name == "removerange64" {
					b = w.nonEmpty64(r)
					if r.Chance(1, 5) && !w.X.B64[b].M.IsEmpty() {
						// wipe whole buckets: [h<<32, (h+k)<<32)
						bs := w.X.B64[b].M.Buckets()
						h := uint64(bs[r.Intn(len(bs))])
						if h+2 < 1<<32 {
							s, e = h<<32, (h+uint64(1+r.Intn(2)))<<32
						}
					}
				}
				return Step{S: []int{b}, A: []uint64{s, e}}, true
			},
			valid: func(w *World, st *Step) bool {
				if !slots64OK(w, st, 1, 2) || st.A[0] > st.A[1] {
					return false
				}
				// huge add/flip ranges are affordable for the model (full chunks are a shared sentinel) and
				// for the observer (bucket-wise comparison) up to a few whole buckets
				return name == "removerange64" || st.A[1]-st.A[0] <= 1<<20 || (st.A[1]-st.A[0] <= 4<<32 && w.X.B64[st.S[0]].M.Card() < 3<<32)
			},
			exec: func(w *World, st *Step) {
				o := w.X.B64[st.S[0]]
				nb := len(o.M.Buckets())
				mod(o.M, st.A[0], st.A[1])
				if len(o.M.Buckets()) < nb {
					w.probe("bucket-emptied-by-range")
				}
				if st.A[0]>>32 != (st.A[1]-1)>>32 && st.A[1] > st.A[0] {
					w.probe("range-crosses-2^32")
				}
				w.out64(st.S[0])
				w.try("C17", func() { real(o.BM, st.A[0], st.A[1]) })
			}})
	}
	range64op("addrange64", func(bm *roaring64.Bitmap, s, e uint64) { bm.AddRange(s, e) }, func(m *model.Set64, s, e uint64) { m.AddRange(s, e) })
	range64op("removerange64", func(bm *roaring64.Bitmap, s, e uint64) { bm.RemoveRange(s, e) }, func(m *model.Set64, s, e uint64) { m.RemoveRange(s, e) })
	range64op("flip64", func(bm *roaring64.Bitmap, s, e uint64) { bm.Flip(s, e) }, func(m *model.Set64, s, e uint64) { m.FlipRange(s, e) })

	reg(&opDef{name: "maint64", tag: "C17",
		gen: func(w *World, r *Rng) (Step, bool) {
			return Step{S: []int{w.slot64(r), w.nonEmpty64(r)}, A: []uint64{uint64(r.Intn(6))}}, true
		},
		valid: func(w *World, st *Step) bool { return slots64OK(w, st, 2, 1) },
		exec: func(w *World, st *Step) {
			o := w.X.B64[st.S[1]]
			switch st.A[0] {
			case 0:
				w.out64(st.S[1])
				w.try("C17", func() { o.BM.RunOptimize() })
			case 1:
				if st.S[0] == st.S[1] {
					return
				}
				var c *roaring64.Bitmap
				w.try("C17", func() { c = o.BM.Clone() })
				w.setResult64(st.S[0], c, o.M.Clone(), "clone64", o.Regions)
			case 2, 3:
				if o.NoCopy {
					return
				}
				w.out64(st.S[1])
				w.try("C17", func() { o.BM.SetCopyOnWrite(st.A[0] == 2) })
			case 4:
				w.out64(st.S[1])
				if !w.try("C17", func() { o.BM.CloneCopyOnWriteContainers() }) {
					o.Regions = nil
				}
				o.NoCopy = false
			case 6:
				oo := w.X.B64[st.S[0]]
				oo.M.Clear()
				oo.Regions = nil
				w.out64(st.S[0])
				w.try("C17", func() { oo.BM.Clear() })
			default:
				if st.S[0] != st.S[1] && w.step%7 == 0 {
					oo := w.X.B64[st.S[0]]
					oo.M.Clear()
					w.out64(st.S[0])
					w.try("C17", func() { oo.BM.Clear() })
				}
			}
		}})
	reg(&opDef{name: "binop64", tag: "C17",
		gen: func(w *World, r *Rng) (Step, bool) {
			a, b := w.nonEmpty64(r), w.nonEmpty64(r)
			return Step{S: []int{w.slot64(r), a, b}, A: []uint64{uint64(r.Intn(4)), uint64(r.Intn(3))}}, true
		},
		valid: func(w *World, st *Step) bool { return slots64OK(w, st, 3, 2) && st.A[0] < 4 },
		exec: func(w *World, st *Step) {
			a, b := w.X.B64[st.S[1]], w.X.B64[st.S[2]]
			op := int(st.A[0])
			switch st.A[1] {
			case 0: // static
				var res *roaring64.Bitmap
				w.try("C17", func() {
					switch op {
					case 0:
						res = roaring64.And(a.BM, b.BM)
					case 1:
						res = roaring64.Or(a.BM, b.BM)
					case 2:
						res = roaring64.Xor(a.BM, b.BM)
					default:
						res = roaring64.AndNot(a.BM, b.BM)
					}
				})
				w.setResult64(st.S[0], res, modelBin64(op, a.M, b.M), "64:"+binNames[op], a.Regions, b.Regions)
			case 1: // in place a op= b
				nm := modelBin64(op, a.M, b.M)
				a.Regions = unionRegions(a.Regions, b.Regions)
				w.out64(st.S[1])
				w.try("C17", func() {
					switch op {
					case 0:
						a.BM.And(b.BM)
					case 1:
						a.BM.Or(b.BM)
					case 2:
						a.BM.Xor(b.BM)
					default:
						a.BM.AndNot(b.BM)
					}
				})
				a.M = nm
				a.Prov = "64:i" + binNames[op]
			default:
				w.try("C17", func() {
					if got, want := a.BM.AndCardinality(b.BM), model.And64(a.M, b.M).Card(); got != want {
						w.fail("C17", "shortcut", "64-bit AndCardinality wrong", fmt.Sprintf("got %d want %d", got, want))
					}
					if got, want := a.BM.OrCardinality(b.BM), model.Or64(a.M, b.M).Card(); got != want {
						w.fail("C17", "shortcut", "64-bit OrCardinality wrong", fmt.Sprintf("got %d want %d", got, want))
					}
					if got, want := a.BM.Intersects(b.BM), !model.And64(a.M, b.M).IsEmpty(); got != want {
						w.fail("C17", "shortcut", "64-bit Intersects wrong", fmt.Sprintf("got %v want %v", got, want))
					}
					if got, want := a.BM.Equals(b.BM), a.M.Equal(b.M); got != want {
						w.fail("C17", "shortcut", "64-bit Equals wrong", fmt.Sprintf("got %v want %v", got, want))
					}
				})
			}
		}})
	reg(&opDef{name: "flipstatic64", tag: "C17",
		gen: func(w *World, r *Rng) (Step, bool) {
			s, e := w.range64(r)
			return Step{S: []int{w.slot64(r), w.slot64(r)}, A: []uint64{s, e}}, true
		},
		valid: func(w *World, st *Step) bool {
			return slots64OK(w, st, 2, 2) && st.A[0] <= st.A[1] && (st.A[1]-st.A[0] <= 1<<20 || (st.A[1]-st.A[0] <= 4<<32 && w.X.B64[st.S[1]].M.Card() < 3<<32))
		},
		exec: func(w *World, st *Step) {
			src := w.X.B64[st.S[1]]
			nm := src.M.Clone()
			nm.FlipRange(st.A[0], st.A[1])
			var res *roaring64.Bitmap
			w.try("C17", func() { res = roaring64.Flip(src.BM, st.A[0], st.A[1]) })
			w.setResult64(st.S[0], res, nm, "flipstatic64", src.Regions)
		}})
	reg(&opDef{name: "agg64", tag: "C17",
		gen: func(w *World, r *Rng) (Step, bool) {
			n := r.Intn(5)
			s := []int{w.slot64(r)}
			for i := 0; i < n; i++ {
				s = append(s, w.slot64(r))
			}
			return Step{S: s, A: []uint64{uint64(r.Intn(3)), uint64([]int{0, 1, 2, 3, 5}[r.Intn(5)])}}, true
		},
		valid: func(w *World, st *Step) bool { return slots64OK(w, st, 1, 2) && st.A[0] < 3 },
		exec: func(w *World, st *Step) {
			var list []*roaring64.Bitmap
			var nm *model.Set64
			for i, s := range st.S[1:] {
				o := w.X.B64[s]
				list = append(list, o.BM)
				switch {
				case i == 0:
					nm = o.M.Clone()
				case st.A[0] == 1:
					nm = model.And64(nm, o.M)
				default:
					nm = model.Or64(nm, o.M)
				}
			}
			if nm == nil {
				nm = model.NewSet64()
			}
			keep := append([]*roaring64.Bitmap(nil), list...)
			name := []string{"FastOr", "FastAnd", "ParOr"}[st.A[0]]
			var res *roaring64.Bitmap
			w.try("C17", func() {
				switch st.A[0] {
				case 0:
					res = roaring64.FastOr(list...)
				case 1:
					res = roaring64.FastAnd(list...)
				default:
					res = roaring64.ParOr(int(st.A[1]), list...)
				}
			})
			for i := range keep {
				if keep[i] != list[i] {
					w.fail("C07", "argument-modified", "64-bit "+name+" changed the caller's slice", fmt.Sprintf("roaring64.%s modified the caller's []*Bitmap (element %d)", name, i))
					break
				}
			}
			w.curOp = "agg64:" + name
			var regs [][]int
			for _, sl := range st.S[1:] {
				regs = append(regs, w.X.B64[sl].Regions)
			}
			w.setResult64(st.S[0], res, nm, "64:"+name, regs...)
		}})
	reg(&opDef{name: "query64", tag: "C17",
		gen: func(w *World, r *Rng) (Step, bool) {
			b := w.nonEmpty64(r)
			return Step{S: []int{b}, A: []uint64{w.value64(r, b), r.U64()}}, true
		},
		valid: func(w *World, st *Step) bool {
			return slots64OK(w, st, 1, 2) && w.X.B64[st.S[0]].M.Card() <= GiantCard
		},
		exec: execQuery64})
	reg(&opDef{name: "from32", tag: "C17",
		gen: func(w *World, r *Rng) (Step, bool) {
			return Step{S: []int{w.slot64(r)}, A: []uint64{uint64(w.nonEmptySlot(r))}}, true
		},
		valid: func(w *World, st *Step) bool {
			// an empty source is outside what the property states (the constructor wraps it as an empty bucket)
			return slots64OK(w, st, 1, 1) && int(st.A[0]) < len(w.B) && !w.B[st.A[0]].M.IsEmpty() && !w.giant(int(st.A[0]))
		},
		exec: func(w *World, st *Step) {
			src := w.B[st.A[0]]
			var res *roaring64.Bitmap
			// documented no-copy: hand it a private clone so that the world's independence checks stay valid
			w.try("C17", func() { res = roaring64.Roaring32AsRoaring64(src.BM.Clone()) })
			nm := model.NewSet64()
			src.M.Each(func(v uint32) bool { nm.Add(uint64(v)); return true })
			w.setResult64(st.S[0], res, nm, "from32", src.Regions)
		}})
	// ------------------------------------------------------------ C18
	reg(&opDef{name: "rt64", tag: "C18",
		gen: func(w *World, r *Rng) (Step, bool) {
			if w.regionsLive() >= maxRegions {
				return Step{}, false
			}
			src := w.slot64(r)
			if r.Chance(4, 5) {
				src = w.nonEmpty64(r)
			}
			return Step{S: []int{w.slot64(r), src}, A: []uint64{uint64(r.Intn(4)), uint64(r.Intn(4)), r.U64(), uint64(r.Intn(2))}}, true
		},
		valid: func(w *World, st *Step) bool {
			return slots64OK(w, st, 2, 4) && st.A[0] < 4 && st.A[1] < 4 && w.regionsLive() < maxRegions+2
		},
		exec: func(w *World, st *Step) {
			src := w.X.B64[st.S[1]]
			we, re := int(st.A[0]), int(st.A[1])
			var data []byte
			var n int64
			var err error
			if w.try("C18", func() { data, n, err = serialize64(src.BM, we) }) {
				return
			}
			if err != nil {
				w.fail("C18", "write-error", "library-made 64-bit bitmap refuses to serialize", fmt.Sprintf("%s: %v", w64Names[we], err))
				return
			}
			var predicted uint64
			w.try("C18", func() { predicted = src.BM.GetSerializedSizeInBytes() })
			if uint64(len(data)) != predicted || (n >= 0 && n != int64(len(data))) {
				w.fail("C18", "byte-accounting", "64-bit size written differs from prediction or returned count", fmt.Sprintf("%s: wrote %d bytes, returned n=%d, GetSerializedSizeInBytes=%d", w64Names[we], len(data), n, predicted))
			}
			var dst *roaring64.Bitmap
			if st.A[3] == 1 && st.S[0] != st.S[1] {
				dst = w.X.B64[st.S[0]].BM
				w.probe("decode64-into-used-receiver")
			} else {
				dst = roaring64.New()
			}
			var p int64
			var ri, pulled int
			// the buffer of a successful zero-copy decode is caller-owned memory: a later write into it is C08's
			if w.try("C18", func() { p, err, ri, pulled = w.decode64(dst, data, re, st.A[2], "C08", false) }) {
				w.out64(st.S[0])
				return
			}
			w.disk("64:"+r64Names[re], "none", "-", fmt.Sprint(err == nil))
			if we != 0 {
				scribble(data)
			}
			if err != nil {
				w.fail("C18", "decode-error", "valid 64-bit stream rejected", fmt.Sprintf("%s of %s output (%d bytes): %v", r64Names[re], w64Names[we], len(data), err))
				if st.A[3] == 1 && st.S[0] != st.S[1] {
					w.panicked = true
					w.out64(st.S[0])
				}
				return
			}
			if p >= 0 && p != int64(len(data)) {
				w.fail("C18", "byte-accounting", "64-bit decoder reports a different byte count", fmt.Sprintf("%s returned %d, stream has %d bytes", r64Names[re], p, len(data)))
			}
			if pulled >= 0 && pulled != len(data) {
				w.fail("C18", "over-read", "64-bit reader consumed bytes beyond the stream", fmt.Sprintf("ReadFrom pulled %d bytes, stream has %d", pulled, len(data)))
			}
			w.setResult64(st.S[0], dst, src.M.Clone(), "decoded64:"+r64Names[re])
			if ri >= 0 {
				w.X.B64[st.S[0]].Regions = []int{ri}
			}
		}})
	// writer faults: a destination that fails at byte k. With a nil error the caller relies on
	// "the byte count equals the returned n" (C18), so a swallowed fault is a mis-count.
	reg(&opDef{name: "wfault64", tag: "C18",
		gen: func(w *World, r *Rng) (Step, bool) {
			return Step{S: []int{w.nonEmpty64(r)}, A: []uint64{r.U64()}}, true
		},
		valid: func(w *World, st *Step) bool { return slots64OK(w, st, 1, 1) },
		exec: func(w *World, st *Step) {
			src := w.X.B64[st.S[0]]
			var data []byte
			var err error
			if w.try("C18", func() { data, err = src.BM.ToBytes() }) || err != nil {
				return
			}
			var offs []int
			if len(data) <= 1500 {
				for k := 0; k < len(data); k++ {
					offs = append(offs, k)
				}
				w.probe("writer64-offsets-exhaustive")
			} else {
				r := NewRng(st.A[0])
				for k := 0; k < 48; k++ {
					offs = append(offs, k)
				}
				samples := 300
				if len(data) > 256<<10 {
					samples = 24
				}
				for i := 0; i < samples; i++ {
					offs = append(offs, r.Intn(len(data)))
				}
				for d := 1; d <= 16 && d <= len(data); d++ {
					offs = append(offs, len(data)-d)
				}
			}
			for _, k := range offs {
				for mode := simio.WShort; mode < simio.WNumModes; mode++ {
					fw := &simio.FaultyWriter{Mode: mode, At: k}
					var n int64
					var werr error
					if w.try("C18", func() { n, werr = src.BM.WriteTo(fw) }) {
						return
					}
					if !fw.Fired {
						continue
					}
					w.St.Faults["writer64-"+simio.WModeNames[mode]]++
					if werr == nil {
						w.fail("C18", "byte-accounting", "64-bit WriteTo returned nil and a count the failed destination never received", fmt.Sprintf("destination failed (%s) at byte %d of %d: WriteTo returned n=%d, err=nil, destination holds %d bytes", simio.WModeNames[mode], k, len(data), n, len(fw.Data)))
						w.disk("64:WriteTo", simio.WModeNames[mode], "-", "swallowed")
						return
					}
					w.disk("64:WriteTo", simio.WModeNames[mode], "-", "error")
				}
			}
		}})

	reg(&opDef{name: "trunc64", tag: "C18",
		gen: func(w *World, r *Rng) (Step, bool) {
			return Step{S: []int{w.slot64(r)}, A: []uint64{uint64(r.Intn(4)), r.U64()}}, true
		},
		valid: func(w *World, st *Step) bool { return slots64OK(w, st, 1, 2) && st.A[0] < 4 },
		exec: func(w *World, st *Step) {
			src := w.X.B64[st.S[0]]
			e := int(st.A[0])
			var data []byte
			var err error
			if w.try("C18", func() { data, err = src.BM.ToBytes() }) || err != nil {
				return
			}
			var offs []int
			if len(data) <= 6000 {
				for k := 0; k < len(data); k++ {
					offs = append(offs, k)
				}
				w.probe("truncation64-exhaustive")
			} else {
				r := NewRng(st.A[1])
				for k := 0; k < 64 && k < len(data); k++ {
					offs = append(offs, k)
				}
				samples := 600
				if len(data) > 256<<10 {
					samples = 40 // megabyte streams: every prefix costs a full decode
				}
				for i := 0; i < samples; i++ {
					offs = append(offs, r.Intn(len(data)))
				}
				offs = append(offs, len(data)-1, len(data)-2)
			}
			var scratch *simio.Region
			if e == 1 {
				scratch, _ = simio.NewRegion(data, "portable64-prefix", "C18", 1)
				defer scratch.Free()
				w.Regs = append(w.Regs, scratch)
				defer func() { w.Regs = w.Regs[:len(w.Regs)-1] }()
			}
			for _, k := range offs {
				prefix := data[:k]
				dst := roaring64.New()
				var derr error
				pan := w.try("C18", func() {
					switch e {
					case 0:
						_, derr = dst.ReadFrom(&simio.ChunkedReader{Data: prefix, Sizes: chunkSizes(st.A[1] + uint64(k)), ErrAt: -1})
					case 1:
						_, derr = dst.FromUnsafeBytes(scratch.Place(prefix))
					case 2:
						derr = dst.UnmarshalBinary(prefix)
					default:
						_, derr = dst.FromBase64(base64.StdEncoding.EncodeToString(prefix))
					}
				})
				w.St.Faults["truncated-stream64"]++
				if pan {
					w.disk("64:"+r64Names[e], "truncate", "-", "panic")
					return
				}
				// the statement requires "an error or a bitmap - never panic or hang"; a prefix that
				// decodes without error is not a violation of C18 as stated, only counted
				if derr == nil {
					w.disk("64:"+r64Names[e], "truncate", "-", "accepted")
				} else {
					w.disk("64:"+r64Names[e], "truncate", "-", "error")
				}
			}
		}})
	reg(&opDef{name: "corrupt64", tag: "C18",
		gen: func(w *World, r *Rng) (Step, bool) {
			return Step{S: []int{w.nonEmpty64(r)}, A: []uint64{uint64(r.Intn(4)), uint64(r.Intn(8)), r.U64()}}, true
		},
		valid: func(w *World, st *Step) bool { return slots64OK(w, st, 1, 3) && st.A[0] < 4 },
		exec:  execCorrupt64})
}

func execQuery64(w *World, st *Step) {
	o := w.X.B64[st.S[0]]
	v := st.A[0]
	r := NewRng(st.A[1])
	arr := o.M.Slice()
	w.try("C17", func() {
		if got, want := o.BM.Contains(v), o.M.Contains(v); got != want {
			w.fail("C17", "query", "64-bit Contains wrong", fmt.Sprintf("Contains(%d)=%v want %v", v, got, want))
		}
		rank := uint64(sort.Search(len(arr), func(i int) bool { return arr[i] > v }))
		if got := o.BM.Rank(v); got != rank {
			w.fail("C17", "query", "64-bit Rank wrong", fmt.Sprintf("Rank(%d)=%d want %d", v, got, rank))
		}
		if len(arr) > 0 {
			if o.BM.Minimum() != arr[0] || o.BM.Maximum() != arr[len(arr)-1] {
				w.fail("C17", "query", "64-bit Minimum/Maximum wrong", fmt.Sprintf("min=%d max=%d want %d %d", o.BM.Minimum(), o.BM.Maximum(), arr[0], arr[len(arr)-1]))
			}
			i := r.Intn(len(arr))
			if r.Chance(1, 4) {
				i = len(arr) - 1
			}
			if got, err := o.BM.Select(uint64(i)); err != nil || got != arr[i] {
				w.fail("C17", "query", "64-bit Select wrong", fmt.Sprintf("Select(%d)=%d,%v want %d", i, got, err, arr[i]))
			}
		}
		if _, err := o.BM.Select(uint64(len(arr))); err == nil {
			w.fail("C17", "query", "64-bit Select beyond the end did not fail", fmt.Sprintf("Select(%d) on %d elements", len(arr), len(arr)))
		}
		// iterators with peek/advance, reverse, batch
		it := o.BM.Iterator()
		pos := 0
		for steps := 0; steps < 300; steps++ {
			has := it.HasNext()
			if has != (pos < len(arr)) {
				w.fail("C17", "iterator", "64-bit Iterator HasNext wrong", fmt.Sprintf("HasNext=%v at %d/%d", has, pos, len(arr)))
				return
			}
			if !has {
				break
			}
			switch r.Intn(4) {
			case 0:
				if pv := it.PeekNext(); pv != arr[pos] {
					w.fail("C17", "iterator", "64-bit PeekNext wrong", fmt.Sprintf("PeekNext=%d want %d", pv, arr[pos]))
					return
				}
			case 1:
				var m uint64
				switch r.Intn(4) {
				case 0:
					m = arr[pos+r.Intn(len(arr)-pos)]
				case 1:
					m = arr[pos] + uint64(r.Intn(1<<17))
				case 2:
					m = (arr[pos]>>32 + 1) << 32
				default:
					if arr[pos] > 5 {
						m = arr[pos] - 5
					}
				}
				it.AdvanceIfNeeded(m)
				pos += sort.Search(len(arr)-pos, func(i int) bool { return arr[pos+i] >= m })
			default:
				if nv := it.Next(); nv != arr[pos] {
					w.fail("C17", "iterator", "64-bit Next wrong", fmt.Sprintf("Next=%d want %d", nv, arr[pos]))
					return
				}
				pos++
			}
		}
		rit := o.BM.ReverseIterator()
		for i := len(arr) - 1; i >= 0 && i >= len(arr)-200; i-- {
			if !rit.HasNext() {
				w.fail("C17", "iterator", "64-bit ReverseIterator ends early", "")
				return
			}
			if nv := rit.Next(); nv != arr[i] {
				w.fail("C17", "iterator", "64-bit ReverseIterator wrong", fmt.Sprintf("got %d want %d", nv, arr[i]))
				return
			}
		}
		mit := o.BM.ManyIterator()
		pos = 0
		for pos < len(arr) {
			buf := make([]uint64, []int{1, 2, 7, 100, 4096, 70000}[r.Intn(6)])
			n := mit.NextMany(buf)
			if n <= 0 || pos+n > len(arr) {
				w.fail("C17", "iterator", "64-bit NextMany count wrong", fmt.Sprintf("n=%d at %d/%d", n, pos, len(arr)))
				return
			}
			for i := 0; i < n; i++ {
				if buf[i] != arr[pos+i] {
					w.fail("C17", "iterator", "64-bit NextMany wrong", fmt.Sprintf("got %d want %d", buf[i], arr[pos+i]))
					return
				}
			}
			pos += n
		}
		cnt := 0
		fseq, bseq := roaring64.Values(o.BM), roaring64.Backward(o.BM)
		for x := range fseq {
			if cnt >= len(arr) || x != arr[cnt] {
				w.fail("C17", "iterator", "64-bit Values wrong", "")
				return
			}
			cnt++
			if cnt > 500 {
				break
			}
		}
		// a sequence value can be walked again (and from inside a walk): each walk starts afresh
		for pass, seq := range []func(func(uint64) bool){fseq, bseq} {
			if pass == 1 {
				k := 0
				for range seq {
					k++
					if k > 3 {
						break
					}
				}
			}
			k := 0
			for x := range seq {
				want := arr[k]
				if pass == 1 {
					want = arr[len(arr)-1-k]
				}
				if x != want {
					w.fail("C17", "iterator", "64-bit Values/Backward: a second walk over the same sequence value differs", fmt.Sprintf("pass %d value #%d: %d want %d", pass, k, x, want))
					return
				}
				k++
				if k >= 100 || k >= len(arr) {
					break
				}
			}
			if k == 0 && len(arr) > 0 {
				w.fail("C17", "iterator", "64-bit Values/Backward: a second walk over the same sequence value is empty", fmt.Sprintf("pass %d", pass))
				return
			}
			if n := len(arr); n > 0 && n <= 30 {
				pairs := 0
				for range seq {
					for range seq {
						pairs++
					}
				}
				if pairs != n*n {
					w.fail("C17", "iterator", "64-bit Values/Backward: nested walks over one sequence value interfere", fmt.Sprintf("%d pairs from a set of %d", pairs, n))
					return
				}
			}
		}
		cnt = 0
		for x := range bseq {
			if cnt >= len(arr) || x != arr[len(arr)-1-cnt] {
				w.fail("C17", "iterator", "64-bit Backward wrong", fmt.Sprintf("value #%d from the end is %d", cnt, x))
				return
			}
			cnt++
			if cnt > 500 {
				break // stopping early must be possible
			}
		}
		if cnt < len(arr) && cnt <= 500 {
			w.fail("C17", "iterator", "64-bit Backward stopped early", fmt.Sprintf("%d of %d values", cnt, len(arr)))
		}
	})
}

var corrupt64Names = []string{"count-small", "count-huge", "count-2^63", "count+1", "key-swap", "key-dup", "inner-cookie", "bitflip"}

func execCorrupt64(w *World, st *Step) {
	src := w.X.B64[st.S[0]]
	e := int(st.A[0])
	kind := int(st.A[1])
	r := NewRng(st.A[2])
	var data []byte
	var err error
	if w.try("C18", func() { data, err = src.BM.ToBytes() }) || err != nil || len(data) < 8 {
		return
	}
	bad := append([]byte(nil), data...)
	put64 := func(v uint64) {
		for i := 0; i < 8; i++ {
			bad[i] = byte(v >> (8 * uint(i)))
		}
	}
	n := uint64(0)
	for i := 0; i < 8; i++ {
		n |= uint64(data[i]) << (8 * uint(i))
	}
	// bucket record offsets: parse with the independent 32-bit codec
	var recs []int
	pos := 8
	for i := uint64(0); i < n && pos+4 <= len(data); i++ {
		recs = append(recs, pos)
		_, used, derr := model.Decode32(data[pos+4:])
		if derr != nil {
			break
		}
		pos += 4 + used
	}
	switch kind {
	case 0:
		if n > 0 {
			put64(n - 1)
		}
	case 1:
		put64([]uint64{1 << 20, 1 << 31, 1<<32 + 1, 1 << 40}[r.Intn(4)])
	case 2:
		put64([]uint64{1 << 63, 1<<64 - 1, 1<<63 + 5}[r.Intn(3)])
	case 3:
		put64(n + 1 + uint64(r.Intn(3)))
	case 4, 5:
		if len(recs) >= 2 {
			i := r.Intn(len(recs) - 1)
			a, b := recs[i], recs[i+1]
			if kind == 4 {
				for k := 0; k < 4; k++ {
					bad[a+k], bad[b+k] = bad[b+k], bad[a+k]
				}
			} else {
				copy(bad[b:b+4], bad[a:a+4])
			}
		}
	case 6:
		if len(recs) > 0 {
			a := recs[r.Intn(len(recs))] + 4
			if a+4 <= len(bad) {
				bad[a+r.Intn(4)] ^= byte(1 << uint(r.Intn(8)))
			}
		}
	default:
		bad[r.Intn(len(bad))] ^= byte(1 << uint(r.Intn(8)))
	}
	w.St.Faults["corrupt64-"+corrupt64Names[kind]]++
	dst := roaring64.New()
	var derr error
	var ri int
	pan := w.try("C18", func() { _, derr, ri, _ = w.decode64(dst, bad, e, st.A[2], "C18", true) })
	if ri >= 0 && ri < len(w.Regs) && w.Regs[ri] != nil {
		defer func() { w.Regs[ri].Free(); w.Regs[ri] = nil }()
	}
	outcome := "error"
	switch {
	case pan:
		outcome = "panic"
	case derr == nil:
		outcome = "accepted"
	}
	w.disk("64:"+r64Names[e], corrupt64Names[kind], "-", outcome)
}
