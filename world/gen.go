package world

// Value, key and range generation: boundary-biased, state-aware.

var keyPool = []uint16{0, 1, 2, 3, 0x7FFF, 0x8000, 0xFFFE, 0xFFFF}
var lowPool = []uint32{0, 1, 2, 62, 63, 64, 65, 127, 128, 4095, 4096, 4097, 32767, 32768, 65472, 65534, 65535}
var countPool = []int{1, 2, 3, 10, 64, 100, 1000, 4090, 4095, 4096, 4097, 4100, 5000, 20000, 65535, 65536}

// pickKeys chooses the active chunk keys of a history.
func pickKeys(r *Rng) []uint16 {
	n := 3 + r.Intn(4)
	ks := make([]uint16, 0, n)
	for len(ks) < n {
		var k uint16
		if r.Chance(3, 4) {
			k = keyPool[r.Intn(len(keyPool))]
		} else {
			k = uint16(r.Intn(65536))
		}
		ks = append(ks, k)
	}
	return ks
}

func (w *World) key(r *Rng) uint16 {
	if len(w.Keys) == 0 {
		w.Keys = pickKeys(r)
	}
	if r.Chance(1, 12) {
		return uint16(r.Intn(65536))
	}
	if r.Chance(1, 10) {
		// neighbour of an active key: makes adjacent chunks
		k := w.Keys[r.Intn(len(w.Keys))]
		if r.Bool() {
			return k + 1
		}
		return k - 1
	}
	return w.Keys[r.Intn(len(w.Keys))]
}

func low(r *Rng) uint32 {
	if r.Chance(1, 2) {
		l := lowPool[r.Intn(len(lowPool))]
		if r.Chance(1, 3) {
			l = (l + uint32(r.Intn(5)) - 2) & 0xFFFF
		}
		return l
	}
	return uint32(r.Intn(65536))
}

func count(r *Rng) int {
	if r.Chance(4, 5) {
		return countPool[r.Intn(len(countPool))]
	}
	return 1 + r.Intn(9000)
}

// value picks a value, often one that exists (or just does not) in slot b.
func (w *World) value(r *Rng, b int) uint32 {
	o := w.B[b]
	if !o.M.IsEmpty() && r.Chance(1, 2) {
		ks := o.M.Keys()
		k := ks[r.Intn(len(ks))]
		// an existing element of that chunk, or its neighbour
		c := o.M.ChunkWords(k)
		start := r.Intn(1024)
		for i := 0; i < 1024; i++ {
			wd := c[(start+i)%1024]
			if wd != 0 {
				bit := 0
				for wd&1 == 0 {
					wd >>= 1
					bit++
				}
				v := uint32(k)<<16 | uint32(((start+i)%1024)*64+bit)
				switch r.Intn(4) {
				case 0:
					return v + 1
				case 1:
					return v - 1
				}
				return v
			}
		}
	}
	return uint32(w.key(r))<<16 | low(r)
}

// rng range [start,end) biased to chunk edges, full chunks and the end of the universe.
func (w *World) rangeArgs(r *Rng) (uint64, uint64) {
	k := uint64(w.key(r))
	start := k<<16 | uint64(low(r))
	if r.Chance(1, 400) {
		// universe scale: thousands of chunks, up to the whole 32-bit range
		switch r.Intn(4) {
		case 0:
			return 0, 1 << 32
		case 1:
			return start, 1 << 32
		case 2:
			return 0, start + 1
		default:
			e := start + uint64(1000+r.Intn(30000))<<16
			if e > 1<<32 {
				e = 1 << 32
			}
			return start, e
		}
	}
	if r.Chance(1, 5) {
		// both ends on boundary values (the end is exclusive: 65535 leaves the last value out)
		if r.Bool() {
			start = k << 16
		}
		k2 := k + uint64(r.Intn(3))
		if k2 > 0xFFFF {
			k2 = 0xFFFF
		}
		end := k2<<16 | uint64(low(r))
		if r.Chance(1, 3) {
			end = k2<<16 | uint64([]uint32{65535, 65534, 1, 0, 64, 65472}[r.Intn(6)])
		}
		if end > start {
			return start, end
		}
	}
	var length uint64
	switch r.Intn(10) {
	case 0:
		length = 1
	case 1:
		length = uint64(1 + r.Intn(64))
	case 2:
		length = uint64(count(r))
	case 3: // to the chunk edge
		length = 65536 - (start & 0xFFFF)
	case 4: // one past the chunk edge
		length = 65536 - (start & 0xFFFF) + 1
	case 5: // whole chunks from an aligned start
		start = k << 16
		length = 65536 * uint64(1+r.Intn(3))
	case 6: // crosses several chunks
		length = uint64(65536 + r.Intn(200000))
	case 7: // to the end of the universe (kept affordable)
		if start < 1<<32-20*65536 {
			start = 1<<32 - uint64(r.Intn(20*65536)) - 1
		}
		length = 1<<32 - start
	case 8:
		length = uint64(r.Intn(5000))
	default:
		length = uint64(r.Intn(70000))
	}
	end := start + length
	if end > 1<<32 {
		end = 1 << 32
	}
	return start, end
}

// Vals materialises a value-list descriptor (key, shape, n, seed).
func Vals(key uint16, shape, n int, seed uint64) []uint32 {
	r := NewRng(seed)
	base := uint32(key) << 16
	if n > 70000 {
		n = 70000
	}
	out := make([]uint32, 0, n)
	switch shape {
	case 0: // sparse random
		for i := 0; i < n; i++ {
			out = append(out, base|uint32(r.Intn(65536)))
		}
	case 1: // clustered at word / chunk boundaries
		for i := 0; i < n; i++ {
			l := lowPool[r.Intn(len(lowPool))]
			l = (l + uint32(r.Intn(7)) - 3) & 0xFFFF
			out = append(out, base|l)
		}
	case 2: // stride from a start: dense chunks, exact cardinalities
		stride := uint32(1 + r.Intn(3))
		s := uint32(r.Intn(64))
		if r.Chance(1, 3) {
			s = 0
		}
		for i := 0; i < n; i++ {
			v := s + uint32(i)*stride
			if v > 65535 {
				break
			}
			out = append(out, base|v)
		}
	case 3: // short runs
		runs := n/8 + 1
		for i := 0; i < runs; i++ {
			s := uint32(r.Intn(65536))
			l := uint32(1 + r.Intn(16))
			for j := uint32(0); j < l && s+j <= 65535; j++ {
				out = append(out, base|(s+j))
			}
		}
	case 4: // spanning up to three following chunks, unsorted
		for i := 0; i < n; i++ {
			v := uint64(base) + uint64(r.Intn(3*65536))
			if v < 1<<32 {
				out = append(out, uint32(v))
			}
		}
	case 6: // runs of three or four values: the cheapest encoding is runs, but only just
		pos := uint32(r.Intn(200))
		for len(out) < n && pos < 65500 {
			l := uint32(3 + r.Intn(2))
			for j := uint32(0); j < l; j++ {
				out = append(out, base|(pos+j))
			}
			pos += l + 2 + uint32(r.Intn(40))
		}
	case 7: // one value in each of n consecutive chunks: many chunks, long key tables
		if n > 1500 {
			n = 1500
		}
		l := uint32(r.Intn(65536))
		for i := 0; i < n; i++ {
			k := uint32(key) + uint32(i)
			if k > 0xFFFF {
				break
			}
			out = append(out, k<<16|l)
		}
	case 9: // n short runs (2-3 values) on a 31-value grid - n around 2048..2056 is where a run chunk
		// of more than 4096 values is as large as a bitmap chunk; an odd seed makes the last run
		// reach 65535
		if n < 1 {
			n = 1
		}
		if n > 2100 {
			n = 2100
		}
		for i := 0; i < n; i++ {
			st := uint32(i*31 + r.Intn(4))
			l := uint32(2 + r.Intn(2))
			if i == n-1 && seed&1 == 1 {
				st, l = 65536-uint32(2+r.Intn(200)), 0
				for v := st; v <= 65535; v++ {
					out = append(out, base|v)
				}
				break
			}
			for j := uint32(0); j < l; j++ {
				out = append(out, base|(st+j))
			}
		}
	case 8: // break-even between the array and the run encoding: a few long consecutive
		// stretches plus isolated values, so that the value count N and the run count k satisfy
		// N - 2k in {-1,0,1,2} (array: 2N bytes, runs: 2+4k bytes); n selects nothing here
		ns := 1 + r.Intn(4)
		sum := 0
		var items []int // stretch lengths; 1 = an isolated value
		for i := 0; i < ns; i++ {
			l := []int{8, 9, 15, 16, 17, 18, 27, 32, 33, 48}[r.Intn(10)]
			items = append(items, l)
			sum += l
		}
		m := sum - 2*ns - (r.Intn(4) - 1)
		for i := 0; i < m; i++ {
			items = append(items, 1)
		}
		for i := len(items) - 1; i > 0; i-- {
			j := r.Intn(i + 1)
			items[i], items[j] = items[j], items[i]
		}
		pos := uint32(r.Intn(3000))
		if r.Chance(1, 4) {
			pos = 0
		}
		for _, l := range items {
			for j := 0; j < l && pos <= 65535; j++ {
				out = append(out, base|pos)
				pos++
			}
			pos += uint32(1 + r.Intn(9)) // a gap of at least one absent value
		}
	case 5: // top of the chunk downwards
		for i := 0; i < n && i < 65536; i++ {
			out = append(out, base|uint32(65535-i))
		}
	default:
		out = append(out, base|uint32(r.Intn(65536)))
	}
	return out
}

const numShapes = 8

func (w *World) slot(r *Rng) int { return r.Intn(len(w.B)) }

// nonEmptySlot prefers a slot holding something.
func (w *World) nonEmptySlot(r *Rng) int {
	for t := 0; t < 8; t++ {
		i := r.Intn(len(w.B))
		if !w.B[i].M.IsEmpty() {
			return i
		}
	}
	return r.Intn(len(w.B))
}

// emptyishSlot prefers an empty slot (for results), else any.
func (w *World) emptyishSlot(r *Rng) int {
	for t := 0; t < 4; t++ {
		i := r.Intn(len(w.B))
		if w.B[i].M.IsEmpty() {
			return i
		}
	}
	return r.Intn(len(w.B))
}
