package world

import (
	"fmt"
	"sync"

	"github.com/RoaringBitmap/roaring/v2"
	"github.com/RoaringBitmap/roaring/v2/roaring64"

	simrt "verifsimrt"

	"verif/model"
	"verif/simio"
)

// C12: the same parallel call under many schedules and worker counts must give
// the same answer as under the canonical schedule, never deadlock, never leave
// a goroutine behind, never panic in a goroutine.

var parNames = []string{"ParOr", "ParAnd", "ParHeapOr", "roaring64.ParOr"}
var workerPool = []int{0, 1, 2, 3, 4, 5, 9, 1, 2, 3, 16, 33, 70}

func init() {
	reg(&opDef{name: "parcmp", tag: "C12", selfSched: true,
		gen: func(w *World, r *Rng) (Step, bool) {
			which := r.Intn(4)
			n := 2 + r.Intn(6)
			if r.Chance(1, 8) {
				n = r.Intn(2)
			}
			var s []int
			for i := 0; i < n; i++ {
				if which == 3 {
					s = append(s, w.slot64(r))
				} else if r.Chance(1, 6) && len(s) > 0 {
					s = append(s, s[r.Intn(len(s))])
				} else {
					s = append(s, w.slot(r))
				}
			}
			return Step{S: s, A: []uint64{uint64(which), r.U64(), uint64(4 + r.Intn(5))}}, true
		},
		valid: func(w *World, st *Step) bool {
			if len(st.A) < 3 || st.A[0] > 3 {
				return false
			}
			for _, s := range st.S {
				if s < 0 || (st.A[0] == 3 && s >= numB64) || (st.A[0] != 3 && s >= len(w.B)) {
					return false
				}
				if (st.A[0] == 3 && w.X.B64[s].M.Card() > GiantCard) || (st.A[0] != 3 && w.giant(s)) {
					return false // results are compared element-wise
				}
			}
			return true
		},
		exec: execParCmp})
	reg(&opDef{name: "pooldecode", tag: "C12", selfSched: true,
		gen: func(w *World, r *Rng) (Step, bool) {
			n := 2 + r.Intn(3)
			var s []int
			for i := 0; i < n; i++ {
				s = append(s, w.nonEmptySlot(r))
			}
			return Step{S: s, A: []uint64{r.U64(), uint64(2 + r.Intn(4))}}, true
		},
		valid: func(w *World, st *Step) bool { return slotsOK(w, st, 1, 2) },
		exec:  execPoolDecode})
}

func execParCmp(w *World, st *Step) {
	which := int(st.A[0])
	r := NewRng(st.A[1])
	rounds := int(st.A[2])
	if !simrt.Instrumented {
		rounds = 2 // plain build: real goroutines, only the worker count varies
	}
	var list32 []*roaring.Bitmap
	var list64 []*roaring64.Bitmap
	for _, s := range st.S {
		if which == 3 {
			list64 = append(list64, w.X.B64[s].BM)
		} else {
			list32 = append(list32, w.B[s].BM)
		}
	}
	w.probe(fmt.Sprintf("parcmp-%s-n%d", parNames[which], len(st.S)))
	call := func(workers int) (r32 *roaring.Bitmap, r64 *roaring64.Bitmap) {
		l32 := append([]*roaring.Bitmap(nil), list32...)
		l64 := append([]*roaring64.Bitmap(nil), list64...)
		switch which {
		case 0:
			r32 = roaring.ParOr(workers, l32...)
		case 1:
			r32 = roaring.ParAnd(workers, l32...)
		case 2:
			r32 = roaring.ParHeapOr(workers, l32...)
		default:
			r64 = roaring64.ParOr(workers, l64...)
		}
		return
	}
	contents := func(r32 *roaring.Bitmap, r64 *roaring64.Bitmap) (a32 []uint32, a64 []uint64, err string) {
		defer func() {
			if rec := recover(); rec != nil {
				err = fmt.Sprintf("panic while reading the result: %v", rec)
			}
		}()
		if which == 3 {
			if r64 == nil {
				return nil, nil, "nil result"
			}
			return nil, r64.ToArray(), ""
		}
		if r32 == nil {
			return nil, nil, "nil result"
		}
		return r32.ToArray(), nil, ""
	}
	var ref32 []uint32
	var ref64 []uint64
	// a recorded failing schedule (explicit choice list) replaces the seeded rounds
	explicit := len(st.SC) > 0 && len(st.A) >= 4
	if explicit {
		rounds = 1
	}
	for k := 0; k <= rounds; k++ {
		cfg := simrt.Config{Seed: r.U64(), Policy: schedPolicies[r.Intn(len(schedPolicies))]}
		workers := workerPool[r.Intn(len(workerPool))]
		if k == 0 {
			cfg.Policy, workers = "lowest", 1 // the canonical execution
		}
		if k == 1 && explicit {
			cfg.Choices, workers = st.SC, int(st.A[3])
		}
		// on a failure in this round, record its schedule in the step: replay and minimisation
		// then work on the explicit choice list
		record := func(res *simrt.Result) {
			if k > 0 && !explicit && simrt.Instrumented {
				for len(st.A) < 4 {
					st.A = append(st.A, 0)
				}
				st.A[3] = uint64(workers)
				st.SC = append([]int32{}, res.Choices...)
				if len(st.SC) == 0 {
					st.SC = []int32{-1}
				}
			}
		}
		_ = record
		var r32 *roaring.Bitmap
		var r64 *roaring64.Bitmap
		res := simrt.Run(cfg, func() { r32, r64 = call(workers) })
		what := fmt.Sprintf(" [%s workers=%d policy=%s seed=%d round=%d]", parNames[which], workers, cfg.Policy, cfg.Seed, k)
		if w.schedResult(&res, what) {
			record(&res)
			return
		}
		// the call must not have written to its inputs (a write by a worker conflicts with every reader of that input)
		for _, sl := range st.S {
			var ok bool
			var d string
			if which == 3 {
				ok, d = eq64(w.X.B64[sl].BM, w.X.B64[sl].M)
			} else {
				ok, d = eq32(w.B[sl].BM, w.B[sl].M)
			}
			if !ok {
				w.fail("C12+C07", "input-modified", parNames[which]+" wrote to one of its inputs", fmt.Sprintf("%s%s changed input slot %d: %s", parNames[which], what, sl, d))
				record(&res)
				if which == 3 {
					w.rebuild64(sl)
				} else {
					w.rebuild(sl)
				}
				return
			}
		}
		a32, a64, cerr := contents(r32, r64)
		if cerr != "" {
			w.fail("C12", "result-unusable", cerr, parNames[which]+what+": "+cerr)
			return
		}
		if k == 0 {
			ref32, ref64 = a32, a64
			// "the same result" is the fold of the inputs: the canonical execution is held to it,
			// every other schedule to the canonical execution
			var want32 []uint32
			var want64 []uint64
			if which == 3 {
				m := model.NewSet64()
				for _, sl := range st.S {
					m = model.Or64(m, w.X.B64[sl].M)
				}
				want64 = m.Slice()
			} else {
				var m *model.Set32
				for _, sl := range st.S {
					switch {
					case m == nil:
						m = w.B[sl].M.Clone()
					case which == 1:
						m = model.And32(m, w.B[sl].M)
					default:
						m = model.Or32(m, w.B[sl].M)
					}
				}
				if m == nil {
					m = model.NewSet32()
				}
				want32 = m.Slice()
			}
			ok := len(a32) == len(want32) && len(a64) == len(want64)
			for i := 0; ok && i < len(a32); i++ {
				ok = a32[i] == want32[i]
			}
			for i := 0; ok && i < len(a64); i++ {
				ok = a64[i] == want64[i]
			}
			if !ok {
				w.fail("C12+C11", "not-the-fold", parNames[which]+": result is not the fold of its inputs", fmt.Sprintf("%s%s returned %d elements, the fold of the %d inputs has %d", parNames[which], what, len(a32)+len(a64), len(st.S), len(want32)+len(want64)))
				return
			}
			continue
		}
		same := len(a32) == len(ref32) && len(a64) == len(ref64)
		for i := 0; same && i < len(a32); i++ {
			same = a32[i] == ref32[i]
		}
		for i := 0; same && i < len(a64); i++ {
			same = a64[i] == ref64[i]
		}
		if !same {
			record(&res)
			w.fail("C12", "schedule-dependent", parNames[which]+": result differs from the canonical schedule", fmt.Sprintf("%s%s returned %d elements, the canonical single-worker execution %d", parNames[which], what, len(a32)+len(a64), len(ref32)+len(ref64)))
			return
		}
	}
}

// yieldingReader hands the scheduler a decision in the middle of a decode.
type yieldingReader struct{ rd *simio.ChunkedReader }

func (y *yieldingReader) Read(p []byte) (int, error) {
	simrt.Yield("reader.Read")
	return y.rd.Read(p)
}

// execPoolDecode: k clients decode independent streams concurrently while the
// process-wide adapter pools recycle adversarially; each must get its own bitmap.
func execPoolDecode(w *World, st *Step) {
	r := NewRng(st.A[0])
	type client struct {
		data []byte
		m    *model.Set32
		got  *roaring.Bitmap
		err  error
		via  int
	}
	var cs []*client
	for _, s := range st.S {
		o := w.B[s]
		var data []byte
		var err error
		if w.try("C05", func() { data, err = o.BM.ToBytes() }) || err != nil {
			return
		}
		cs = append(cs, &client{data: data, m: o.M, via: r.Intn(2)})
	}
	rounds := int(st.A[1])
	if !simrt.Instrumented {
		rounds = 1
	}
	// some histories start with decodes that fail (truncated stream, failing reader): whatever the
	// error paths do with pooled adapters must not leak into the concurrent decodes that follow
	if r.Chance(1, 2) && len(cs) > 0 {
		for i := 0; i < 1+r.Intn(3); i++ {
			c := cs[r.Intn(len(cs))]
			cut := 0
			if len(c.data) > 0 {
				cut = r.Intn(len(c.data))
			}
			w.try("C10", func() {
				tmp := roaring.New()
				switch r.Intn(4) {
				case 0:
					tmp.ReadFrom(&simio.ChunkedReader{Data: c.data[:cut], Sizes: chunkSizes(r.U64()), ErrAt: -1})
				case 1:
					tmp.ReadFrom(&simio.ChunkedReader{Data: c.data, Sizes: chunkSizes(r.U64()), ErrAt: cut})
				case 2:
					tmp.FromBuffer(append([]byte(nil), c.data[:cut]...))
				default:
					tmp.UnmarshalBinary(append([]byte(nil), c.data[:cut]...))
				}
			})
			w.St.Faults["failed-decode-before-concurrent-decodes"]++
		}
	}
	for k := 0; k < rounds; k++ {
		cfg := simrt.Config{Seed: r.U64(), Policy: schedPolicies[r.Intn(len(schedPolicies))]}
		seeds := make([]uint64, len(cs))
		for i := range seeds {
			seeds[i] = r.U64()
		}
		res := simrt.Run(cfg, func() {
			var wg sync.WaitGroup
			for i, c := range cs {
				i, c := i, c
				c.got, c.err = roaring.New(), nil
				simrt.WGAdd(&wg, 1)
				wg.Add(1)
				simrt.Go(func() {
					defer func() {
						simrt.BeforeDone(&wg)
						wg.Done()
					}()
					if c.via == 0 {
						rd := &yieldingReader{&simio.ChunkedReader{Data: c.data, Sizes: chunkSizes(seeds[i]), ErrAt: -1}}
						_, c.err = c.got.ReadFrom(rd)
					} else {
						buf := append([]byte(nil), c.data...)
						simrt.Yield("before FromBuffer")
						_, c.err = c.got.FromBuffer(buf)
					}
				})
			}
			simrt.BeforeWait(&wg)
			wg.Wait()
		})
		what := fmt.Sprintf(" [concurrent decode, %d clients, policy=%s seed=%d]", len(cs), cfg.Policy, cfg.Seed)
		if w.schedResult(&res, what) {
			return
		}
		for i, c := range cs {
			if c.err != nil {
				w.fail("C12", "concurrent-decode", "a valid stream was rejected during concurrent decoding", fmt.Sprintf("client %d%s: %v", i, what, c.err))
				return
			}
			if ok, d := eq32(c.got, c.m); !ok {
				w.fail("C12", "concurrent-decode", "a client decoded something other than its own stream", fmt.Sprintf("client %d%s: %s", i, what, d))
				return
			}
		}
	}
	w.probe("pooldecode")
}
