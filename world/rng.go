package world

// Rng is a small self-contained PRNG (splitmix64) so that a seed means the
// same run under every Go release.
type Rng struct{ s uint64 }

func NewRng(seed uint64) *Rng { return &Rng{s: seed} }

func (r *Rng) U64() uint64 {
	r.s += 0x9E3779B97F4A7C15
	z := r.s
	z = (z ^ (z >> 30)) * 0xBF58476D1CE4E5B9
	z = (z ^ (z >> 27)) * 0x94D049BB133111EB
	return z ^ (z >> 31)
}

// Intn returns a value in [0,n).
func (r *Rng) Intn(n int) int {
	if n <= 0 {
		return 0
	}
	return int(r.U64() % uint64(n))
}

func (r *Rng) U64n(n uint64) uint64 {
	if n == 0 {
		return 0
	}
	return r.U64() % n
}

func (r *Rng) Bool() bool { return r.U64()&1 == 1 }

// Chance returns true with probability num/den.
func (r *Rng) Chance(num, den int) bool { return r.Intn(den) < num }

// Mix derives an independent seed.
func Mix(a uint64, b ...uint64) uint64 {
	x := a
	for _, v := range b {
		x ^= v + 0x9E3779B97F4A7C15 + (x << 6) + (x >> 2)
		r := Rng{s: x}
		x = r.U64()
	}
	return x
}

// HashStr is FNV-1a.
func HashStr(s string) uint64 {
	h := uint64(14695981039346656037)
	for i := 0; i < len(s); i++ {
		h ^= uint64(s[i])
		h *= 1099511628211
	}
	return h
}

// Pick chooses an index by weight.
func (r *Rng) Pick(weights []int) int {
	t := 0
	for _, w := range weights {
		t += w
	}
	if t == 0 {
		return 0
	}
	x := r.Intn(t)
	for i, w := range weights {
		if x < w {
			return i
		}
		x -= w
	}
	return len(weights) - 1
}
