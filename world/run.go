package world

import (
	"runtime"
	"runtime/debug"

	simrt "verifsimrt"
)

// Trace is a recorded run: enough to replay it without any PRNG.
type Trace struct {
	Prop    string    `json:"property"`
	Profile string    `json:"profile,omitempty"`
	Seed    uint64    `json:"seed"`
	Index   int       `json:"index"`
	Slots   int       `json:"slots,omitempty"`
	Steps   []Step    `json:"steps"`
	Fails   []Failure `json:"failures,omitempty"`
	Note    string    `json:"note,omitempty"`
}

// Budget per history, by property.
func stepsFor(prop string, r *Rng) int {
	switch prop {
	case "C05", "C10", "C13", "C18":
		return 8 + r.Intn(16)
	case "C12":
		return 8 + r.Intn(14)
	}
	// swarm: many short, some long
	switch r.Intn(4) {
	case 0:
		return 6 + r.Intn(10)
	case 1:
		return 15 + r.Intn(25)
	default:
		return 30 + r.Intn(50)
	}
}

func init() {
	debug.SetPanicOnFault(true)
}

// RunSeed generates and executes one history for prop from seed.
func RunSeed(prop, profile string, seed uint64, index int) (*Trace, *Stats) {
	debug.SetPanicOnFault(true)
	simrt.ResetPools()
	r := NewRng(seed)
	w := New(Config{Prop: prop, Profile: profile})
	defer w.Close()
	w.Keys = pickKeys(r)
	n := stepsFor(prop, r)
	tr := &Trace{Prop: prop, Profile: profile, Seed: seed, Index: index}
	// a scenario that has started is always completed (bounded), so that the
	// operation it sets the stage for is actually reached
	giantSteps := 0
	for i := 0; i < n || (w.PendingLen() > 0 && i < n+200); i++ {
		st := w.Generate(r)
		w.Exec(&st)
		tr.Steps = append(tr.Steps, st)
		// universe-scale objects make every later step expensive: a history that holds one
		// gets a dozen more steps, not the rest of its budget
		if w.HasGiant() {
			giantSteps++
			if giantSteps > 12 && w.PendingLen() == 0 {
				w.probe("history-cut-short-after-giant")
				break
			}
		}
	}
	tr.Fails = w.Fails
	return tr, w.St
}

// Replay executes the recorded steps in a fresh world.
func Replay(tr *Trace) ([]Failure, *Stats) {
	debug.SetPanicOnFault(true)
	simrt.ResetPools()
	w := New(Config{Prop: tr.Prop, Profile: tr.Profile, Slots: tr.Slots})
	defer w.Close()
	for i := range tr.Steps {
		st := tr.Steps[i]
		w.Exec(&st)
	}
	return w.Fails, w.St
}

func hasSig(fs []Failure, sig string) bool {
	for _, f := range fs {
		if f.Sig() == sig {
			return true
		}
	}
	return false
}

// Minimise shrinks tr's steps (ddmin, then single-step removal) while a
// failure with signature sig still occurs. Replays are in-process.
func Minimise(tr *Trace, sig string, maxReplays int) *Trace {
	cur := append([]Step(nil), tr.Steps...)
	replays := 0
	test := func(steps []Step) bool {
		if replays >= maxReplays {
			return false
		}
		replays++
		t := *tr
		t.Steps = steps
		fs, _ := Replay(&t)
		runtime.GC()
		return hasSig(fs, sig)
	}
	// drop everything after the first failing step
	if fs, _ := Replay(tr); hasSig(fs, sig) {
		last := 0
		for _, f := range fs {
			if f.Sig() == sig {
				last = f.Step
				break
			}
		}
		if last+1 < len(cur) && test(cur[:last+1]) {
			cur = cur[:last+1]
		}
	} else {
		return tr
	}
	n := 2
	for len(cur) >= 2 {
		chunk := (len(cur) + n - 1) / n
		reduced := false
		for start := 0; start < len(cur); start += chunk {
			end := start + chunk
			if end > len(cur) {
				end = len(cur)
			}
			cand := append(append([]Step(nil), cur[:start]...), cur[end:]...)
			if len(cand) > 0 && test(cand) {
				cur = cand
				if n > 2 {
					n--
				}
				reduced = true
				break
			}
		}
		if !reduced {
			if chunk == 1 {
				break
			}
			n *= 2
			if n > len(cur) {
				n = len(cur)
			}
		}
		if replays >= maxReplays {
			break
		}
	}
	// argument shrinking: smaller counts in value lists
	for i := range cur {
		if cur[i].Op == "addmany" && len(cur[i].A) >= 4 {
			for _, n := range []uint64{1, 2, 10, 100, 1000} {
				if n >= cur[i].A[2] {
					break
				}
				cand := append([]Step(nil), cur...)
				a := append([]uint64(nil), cur[i].A...)
				a[2] = n
				cand[i].A = a
				if test(cand) {
					cur = cand
					break
				}
			}
		}
	}
	// schedule shrinking: turn recorded scheduler choices back into the canonical choice (-1)
	// wherever the failure persists, first in halves, then one by one from the end
	for i := range cur {
		if len(cur[i].SC) < 2 {
			continue
		}
		sc := append([]int32(nil), cur[i].SC...)
		try := func(cand []int32) bool {
			c2 := append([]Step(nil), cur...)
			c2[i].SC = cand
			return test(c2)
		}
		for span := len(sc) / 2; span >= 1; span /= 2 {
			for at := 0; at+span <= len(sc); at += span {
				allCanon := true
				for _, v := range sc[at : at+span] {
					if v > 0 {
						allCanon = false
					}
				}
				if allCanon {
					continue
				}
				cand := append([]int32(nil), sc...)
				for j := at; j < at+span; j++ {
					cand[j] = -1
				}
				if try(cand) {
					sc = cand
				}
			}
		}
		// drop a canonical tail
		for len(sc) > 1 && sc[len(sc)-1] <= 0 {
			sc = sc[:len(sc)-1]
		}
		if try(sc) {
			cur[i].SC = sc
		}
	}
	out := *tr
	out.Steps = cur
	fs, _ := Replay(&out)
	out.Fails = nil
	for _, f := range fs {
		if f.Sig() == sig {
			out.Fails = append(out.Fails, f)
			break
		}
	}
	out.Note = "minimised"
	return &out
}
