// Package simio is the simulated storage and stream layer (DISK): caller-owned
// memory as mmap regions with guard pages, faulty writers, chunked/faulty
// readers and stored-byte corruption.
package simio

import (
	"fmt"
	"syscall"
	"unsafe"
)

const pageSize = 4096

// Region is an anonymous mapping with PROT_NONE guard pages on both sides.
// The payload ends exactly at the trailing guard page, so an over-read faults.
type Region struct {
	mem     []byte // whole mapping including guards
	payload []byte
	Kind    string // what lives here ("portable", "frozen", "dense")
	Prop    string // property charged with a fault inside this region
	state   int    // 0 rw, 1 read-only, 2 unmapped (PROT_NONE)
	sum     uint64
	freed   bool
}

// NewRegion maps a region holding a copy of data. align shifts the payload
// start (0..7) by placing extra slack before it, while keeping its end at the guard.
func NewRegion(data []byte, kind, prop string, align int) (*Region, error) {
	n := len(data)
	pages := (n + pageSize - 1) / pageSize
	if pages == 0 {
		pages = 1
	}
	total := (pages + 2) * pageSize
	mem, err := syscall.Mmap(-1, 0, total, syscall.PROT_READ|syscall.PROT_WRITE, syscall.MAP_ANON|syscall.MAP_PRIVATE)
	if err != nil {
		return nil, err
	}
	if err := syscall.Mprotect(mem[:pageSize], syscall.PROT_NONE); err != nil {
		return nil, err
	}
	if err := syscall.Mprotect(mem[total-pageSize:], syscall.PROT_NONE); err != nil {
		return nil, err
	}
	end := total - pageSize
	start := end - n
	// 8-byte alignment of the start is what frozen views and dense words need;
	// keep the end at the guard only when that preserves alignment.
	if align > 1 && start%align != 0 {
		shift := start % align
		start -= shift
		end -= shift
	}
	r := &Region{mem: mem, payload: mem[start:end:end], Kind: kind, Prop: prop}
	copy(r.payload, data)
	r.sum = checksum(r.payload)
	return r, nil
}

func checksum(b []byte) uint64 {
	h := uint64(14695981039346656037)
	for _, c := range b {
		h ^= uint64(c)
		h *= 1099511628211
	}
	return h
}

// Place re-fills a writable region with data so that it ends flush at the
// trailing guard page (len(data) must not exceed the original payload length).
func (r *Region) Place(data []byte) []byte {
	end := len(r.mem) - pageSize
	start := end - len(data)
	if start < pageSize {
		panic("simio: Place: data larger than region")
	}
	r.payload = r.mem[start:end:end]
	copy(r.payload, data)
	r.sum = checksum(r.payload)
	return r.payload
}

// Bytes is the caller-owned slice handed to the library.
func (r *Region) Bytes() []byte { return r.payload }

// Words views the payload as []uint64 (payload length must be a multiple of 8).
func (r *Region) Words() []uint64 {
	if len(r.payload) == 0 {
		return nil
	}
	return unsafe.Slice((*uint64)(unsafe.Pointer(&r.payload[0])), len(r.payload)/8)
}

// Contains reports whether addr lies inside the mapping (guards included).
func (r *Region) Contains(addr uintptr) bool {
	if r.freed || len(r.mem) == 0 {
		return false
	}
	base := uintptr(unsafe.Pointer(&r.mem[0]))
	return addr >= base && addr < base+uintptr(len(r.mem))
}

// ContainsPayload reports whether [p, p+n) overlaps the payload.
func (r *Region) OverlapsPayload(p uintptr, n int) bool {
	if r.freed || len(r.payload) == 0 || n == 0 {
		return false
	}
	base := uintptr(unsafe.Pointer(&r.payload[0]))
	return p < base+uintptr(len(r.payload)) && p+uintptr(n) > base
}

func (r *Region) inner() []byte { return r.mem[pageSize : len(r.mem)-pageSize] }

// ReadOnly makes the payload PROT_READ: a stray write is a recoverable fault.
func (r *Region) ReadOnly() error {
	if r.state == 1 {
		return nil
	}
	r.state = 1
	return syscall.Mprotect(r.inner(), syscall.PROT_READ)
}

// Unmap makes the payload PROT_NONE: any residual dependency faults on first touch.
func (r *Region) Unmap() error {
	r.state = 2
	return syscall.Mprotect(r.inner(), syscall.PROT_NONE)
}

// Writable restores read-write access (used for the scribble test and before Free).
func (r *Region) Writable() error {
	r.state = 0
	return syscall.Mprotect(r.inner(), syscall.PROT_READ|syscall.PROT_WRITE)
}

func (r *Region) State() int { return r.state }

func (r *Region) StateName() string {
	switch r.state {
	case 1:
		return "read-only"
	case 2:
		return "unmapped"
	}
	return "writable"
}

// Intact reports whether the payload still has its original checksum.
// Only meaningful while readable.
func (r *Region) Intact() bool {
	if r.state == 2 || r.freed {
		return true
	}
	return checksum(r.payload) == r.sum
}

// Resum re-baselines the checksum (after a reported modification).
func (r *Region) Resum() {
	if r.state != 2 && !r.freed {
		r.sum = checksum(r.payload)
	}
}

// Scribble overwrites the payload with garbage (region must be writable).
func (r *Region) Scribble(seed uint64) {
	for i := range r.payload {
		seed = seed*6364136223846793005 + 1442695040888963407
		r.payload[i] = byte(seed >> 56)
	}
	r.sum = checksum(r.payload)
}

// Free releases the mapping.
func (r *Region) Free() {
	if r.freed {
		return
	}
	r.freed = true
	syscall.Munmap(r.mem)
	r.mem, r.payload = nil, nil
}

func (r *Region) String() string {
	return fmt.Sprintf("region{%s,%d bytes,%s}", r.Kind, len(r.payload), r.StateName())
}
