package simio

import (
	"errors"
	"io"
)

// ErrInjected is the error every injected fault returns.
var ErrInjected = errors.New("simio: injected fault")

// Writer fault modes. At is the number of bytes the file accepts before the
// fault; the first call that would exceed it triggers the fault, and every
// later call fails with (0, err).
const (
	WNone  = iota
	WShort // accept the bytes up to At, return (n<len(p), err)
	WZero  // accept nothing of the crossing call, return (0, err)
	WAfter // accept the whole crossing call, return (len(p), err)
	WNumModes
)

var WModeNames = []string{"none", "short", "zero", "after"}

// FaultyWriter is a simulated file.
type FaultyWriter struct {
	Mode  int
	At    int
	Data  []byte
	Calls int
	Fired bool
}

func (w *FaultyWriter) Write(p []byte) (int, error) {
	w.Calls++
	if w.Fired {
		return 0, ErrInjected
	}
	if w.Mode == WNone || len(w.Data)+len(p) <= w.At {
		w.Data = append(w.Data, p...)
		return len(p), nil
	}
	w.Fired = true
	switch w.Mode {
	case WShort:
		room := w.At - len(w.Data)
		w.Data = append(w.Data, p[:room]...)
		return room, ErrInjected
	case WAfter:
		w.Data = append(w.Data, p...)
		return len(p), ErrInjected
	}
	return 0, ErrInjected
}

// ChunkedReader delivers a file in planned chunk sizes with optional error.
type ChunkedReader struct {
	Data     []byte
	Pos      int
	Sizes    []int // cyclic chunk sizes; 0 = a zero-length read (n=0, nil) once
	si       int
	ErrAt    int  // inject ErrInjected when Pos reaches ErrAt (-1 = never)
	EOFWith  bool // deliver io.EOF together with the last bytes
	Pulled   int  // bytes handed out
	Calls    int
	Fired    bool
	zeroRun  int
}

func (r *ChunkedReader) Read(p []byte) (int, error) {
	r.Calls++
	if len(p) == 0 {
		return 0, nil
	}
	if r.ErrAt >= 0 && r.Pos >= r.ErrAt {
		r.Fired = true
		return 0, ErrInjected
	}
	if r.Pos >= len(r.Data) {
		return 0, io.EOF
	}
	n := len(p)
	if len(r.Sizes) > 0 {
		c := r.Sizes[r.si%len(r.Sizes)]
		r.si++
		if c == 0 {
			r.zeroRun++
			if r.zeroRun < 3 {
				return 0, nil
			}
			c = 1
		}
		r.zeroRun = 0
		if c < n {
			n = c
		}
	}
	if rem := len(r.Data) - r.Pos; n > rem {
		n = rem
	}
	if r.ErrAt >= 0 && r.Pos+n > r.ErrAt {
		n = r.ErrAt - r.Pos
	}
	copy(p, r.Data[r.Pos:r.Pos+n])
	r.Pos += n
	r.Pulled += n
	if r.EOFWith && r.Pos == len(r.Data) {
		return n, io.EOF
	}
	return n, nil
}
