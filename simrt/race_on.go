//go:build race

package verifsimrt

import "runtime"

// RaceBuild reports whether the race detector is compiled in.
const RaceBuild = true

func raceDisable() { runtime.RaceDisable() }
func raceEnable()  { runtime.RaceEnable() }
