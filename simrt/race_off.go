//go:build !race

package verifsimrt

// RaceBuild reports whether the race detector is compiled in.
const RaceBuild = false

func raceDisable() {}
func raceEnable()  {}
