module verifsimrt

go 1.24.0
