module verifsimrt

go 1.24.0

toolchain go1.24.4
