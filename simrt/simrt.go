// Package verifsimrt is the runtime of the deterministic scheduler (SCHED).
//
// An instrumented copy of the library calls the Before*/Select/Go hooks in
// front of every concurrency operation. Inside Run every simulated goroutine is
// parked at such a hook except the one (or, for an unbuffered rendezvous, the
// two) that the scheduler has released, so one seed decides every interleaving.
// Outside Run the hooks are pass-through no-ops.
//
// Rules that keep the race detector honest (see DESIGN.md §2.1): scheduler
// state is owned by the scheduler goroutine alone; workers talk to it through
// by-value messages; that traffic is hidden from the detector
// (RaceDisable/RaceEnable), so the only happens-before edges the detector sees
// are the ones the library's own channels, WaitGroups and go statements create.
package verifsimrt

import (
	"fmt"
	"reflect"
	"runtime"
	"runtime/debug"
	"sort"
	"strings"
	"sync"
	"sync/atomic"
	"time"
)

// Instrumented is set by a generated init() in the instrumented library copy.
var Instrumented bool

// MarkInstrumented is called from the instrumented copy.
func MarkInstrumented() { Instrumented = true }

// Dir of a select case.
const (
	RecvDir = 0
	SendDir = 1
)

// Case describes one communication clause of a select.
type Case struct {
	Ch  interface{}
	Dir int
}

// Config of one simulated execution.
type Config struct {
	Seed    uint64
	Policy  string  // random | lowest | pct | starve
	NumCPU  int     // value returned by NumCPU() (0 = real)
	Choices []int32 // replay: index into the sorted enabled list per decision; -1 or out of range = lowest id
	MaxDecisions int
}

// Result of one simulated execution.
type Result struct {
	Decisions   int      // decision points with more than one enabled goroutine
	Steps       int      // all releases
	Switches    int      // releases that changed the running goroutine
	Choices     []int32  // what was chosen at every decision (for replay)
	Fingerprint uint64   // per sync object, the sequence of goroutine ids that operated on it
	Goroutines  int
	Deadlock    string   // non-empty: nothing enabled while the root call had not returned
	Leaked      []string // goroutines still parked after everything that can run has run
	Panics      []string // panics in simulated goroutines other than the root
	RootPanic   interface{}
	Probes      map[string]int
	Aborted     bool
}

type intentKind int

const (
	kStart intentKind = iota
	kYield
	kSend
	kRecv
	kClose
	kSelect
	kWGAdd
	kWGDone
	kWGWait
	kLock
	kUnlock
	kChoose
)

var kindNames = []string{"start", "yield", "send", "recv", "close", "select", "wgadd", "wgdone", "wgwait", "lock", "unlock", "choose"}

type selCase struct {
	ch  uintptr
	dir int
	chv reflect.Value
}

// msg is sent by value from a worker to the scheduler.
type msg struct {
	typ    int // 0 park, 1 spawn, 2 exit, 3 rootdone
	g      *gor
	kind   intentKind
	obj    uintptr
	chv    reflect.Value
	n      int
	cases  []selCase
	hasDef bool
	label  string
	child  *gor
	panicS string
}

type gor struct {
	id     string
	num    int
	wake   chan int // value: select case index / choose result / -2 abort
	parked bool
	m      msg
	prio   int
	nchild int
}

type sched struct {
	cfg     Config
	events  chan msg
	rng     uint64
	gs      []*gor
	closed  map[uintptr]bool
	wg      map[uintptr]int
	locked  map[uintptr]bool
	labels  map[uintptr]int
	objSeq  map[int][]int
	res     Result
	rootDone bool
	running int
	last    *gor
	dec     int
	pctDrop map[int]bool
	starve  int
	done    chan Result
	abort   bool
}

var cur atomic.Pointer[sched]

// gtab maps goroutine ids to simulated goroutines: an open-addressing table of
// atomics, so that lookups by many goroutines neither race nor (being done
// under RaceDisable) add happens-before edges between them.
const gtabSize = 1 << 13

var gtab [gtabSize]struct {
	id atomic.Uint64
	g  atomic.Pointer[gor]
}

//go:norace
func gtabStore(id uint64, g *gor) {
	raceDisable()
	defer raceEnable()
	for i, h := 0, id*0x9E3779B97F4A7C15>>40; i < gtabSize; i, h = i+1, h+1 {
		e := &gtab[h&(gtabSize-1)]
		if e.id.Load() == 0 && e.id.CompareAndSwap(0, id) {
			e.g.Store(g)
			return
		}
	}
	panic("simrt: goroutine table full")
}

//go:norace
func gtabLoad(id uint64) *gor {
	raceDisable()
	defer raceEnable()
	for i, h := 0, id*0x9E3779B97F4A7C15>>40; i < gtabSize; i, h = i+1, h+1 {
		e := &gtab[h&(gtabSize-1)]
		v := e.id.Load()
		if v == id {
			return e.g.Load()
		}
		if v == 0 {
			return nil
		}
	}
	return nil
}

//go:norace
func gtabDelete(id uint64) {
	raceDisable()
	defer raceEnable()
	for i, h := 0, id*0x9E3779B97F4A7C15>>40; i < gtabSize; i, h = i+1, h+1 {
		e := &gtab[h&(gtabSize-1)]
		if e.id.Load() == id {
			e.g.Store(nil)
			e.id.Store(^uint64(0)) // tombstone: keeps probe chains intact
			return
		}
	}
}

// gtabReset clears the table between simulations (nothing is running then).
//
//go:norace
func gtabReset() {
	for i := range gtab {
		gtab[i].id.Store(0)
		gtab[i].g.Store(nil)
	}
}

// IsAbort reports whether a recovered panic value is the scheduler unwinding a
// parked goroutine after a deadlock; such a panic must be re-raised.
func IsAbort(r interface{}) bool { _, ok := r.(abortT); return ok }

// Active reports whether the calling goroutine is inside a simulation.
func Active() bool { s, _ := me(); return s != nil }

// Abort is the panic value used to unwind parked goroutines after a deadlock.
type abortT struct{}

func goid() uint64 {
	var buf [64]byte
	n := runtime.Stack(buf[:], false)
	// "goroutine 123 ["
	var id uint64
	for _, c := range buf[10:n] {
		if c < '0' || c > '9' {
			break
		}
		id = id*10 + uint64(c-'0')
	}
	return id
}

func (s *sched) rand() uint64 {
	s.rng += 0x9E3779B97F4A7C15
	z := s.rng
	z = (z ^ (z >> 30)) * 0xBF58476D1CE4E5B9
	z = (z ^ (z >> 27)) * 0x94D049BB133111EB
	return z ^ (z >> 31)
}

// me returns the current simulated goroutine, or nil outside a simulation.
//
//go:norace
func me() (*sched, *gor) {
	raceDisable()
	s := cur.Load()
	raceEnable()
	if s == nil {
		return nil, nil
	}
	g := gtabLoad(goid())
	if g == nil {
		return nil, nil // a goroutine the simulation does not own
	}
	return s, g
}

// park announces an intent and blocks until released. Returns the scheduler's answer.
//go:norace
func park(s *sched, g *gor, m msg) int {
	m.typ = 0
	m.g = g
	raceDisable()
	s.events <- m
	r := <-g.wake
	raceEnable()
	if r == -2 {
		panic(abortT{})
	}
	return r
}

//go:norace
func chanPtr(ch interface{}) (uintptr, reflect.Value) {
	v := reflect.ValueOf(ch)
	if !v.IsValid() || v.Kind() != reflect.Chan {
		return 0, v
	}
	return v.Pointer(), v
}

// ---------------------------------------------------------------- hooks

// Go starts f as a simulated goroutine.
//go:norace
func Go(f func()) {
	s, g := me()
	if s == nil {
		go f()
		return
	}
	g.nchild++
	child := &gor{id: fmt.Sprintf("%s.%d", g.id, g.nchild), wake: make(chan int, 1)}
	raceDisable()
	s.events <- msg{typ: 1, g: g, child: child}
	raceEnable()
	go func() {
		debug.SetPanicOnFault(true)
		id := goid()
		gtabStore(id, child)
		defer func() {
			gtabDelete(id)
			ps := ""
			if r := recover(); r != nil {
				if _, isAbort := r.(abortT); !isAbort {
					ps = fmt.Sprintf("%v\n%s", r, shortStack())
				}
			}
			raceDisable()
			s.events <- msg{typ: 2, g: child, panicS: ps}
			raceEnable()
		}()
		park(s, child, msg{kind: kStart})
		f()
	}()
	park(s, g, msg{kind: kYield, label: "go"})
}

func shortStack() string {
	lines := strings.Split(string(debug.Stack()), "\n")
	var keep []string
	for _, l := range lines {
		if strings.Contains(l, ".go:") && !strings.Contains(l, "simrt") && !strings.Contains(l, "runtime/") {
			keep = append(keep, strings.TrimSpace(l))
			if len(keep) >= 5 {
				break
			}
		}
	}
	return strings.Join(keep, " <- ")
}

// Yield is a plain scheduling point.
//go:norace
func Yield(label string) {
	if s, g := me(); s != nil {
		park(s, g, msg{kind: kYield, label: label})
	}
}

//go:norace
func BeforeSend(ch interface{}) {
	if s, g := me(); s != nil {
		p, v := chanPtr(ch)
		park(s, g, msg{kind: kSend, obj: p, chv: v})
	}
}

//go:norace
func BeforeRecv(ch interface{}) {
	if s, g := me(); s != nil {
		p, v := chanPtr(ch)
		park(s, g, msg{kind: kRecv, obj: p, chv: v})
	}
}

//go:norace
func BeforeClose(ch interface{}) {
	if s, g := me(); s != nil {
		p, v := chanPtr(ch)
		park(s, g, msg{kind: kClose, obj: p, chv: v})
	}
}

// Select returns the index of the case to execute (-1 = default). Outside a
// simulation it behaves like a real select (without executing the operation):
// it polls until a case is ready.
//go:norace
func Select(hasDefault bool, cases ...Case) int {
	s, g := me()
	if s == nil {
		return realSelect(hasDefault, cases)
	}
	sc := make([]selCase, len(cases))
	for i, c := range cases {
		p, v := chanPtr(c.Ch)
		sc[i] = selCase{ch: p, dir: c.Dir, chv: v}
	}
	return park(s, g, msg{kind: kSelect, cases: sc, hasDef: hasDefault})
}

// realSelect approximates readiness outside a simulation by polling.
func realSelect(hasDefault bool, cases []Case) int {
	for {
		for i, c := range cases {
			v := reflect.ValueOf(c.Ch)
			if !v.IsValid() || v.IsNil() {
				continue
			}
			if c.Dir == RecvDir && v.Len() > 0 {
				return i
			}
			if c.Dir == SendDir && v.Cap() > 0 && v.Len() < v.Cap() {
				return i
			}
		}
		if hasDefault {
			return -1
		}
		// unbuffered or closed channels cannot be polled safely: fall back to the first case
		for i, c := range cases {
			v := reflect.ValueOf(c.Ch)
			if v.IsValid() && !v.IsNil() && v.Cap() == 0 {
				return i
			}
		}
		time.Sleep(20 * time.Microsecond)
	}
}

//go:norace
func WGAdd(wg *sync.WaitGroup, n int) {
	if s, g := me(); s != nil {
		park(s, g, msg{kind: kWGAdd, obj: reflect.ValueOf(wg).Pointer(), n: n})
	}
}

//go:norace
func BeforeDone(wg *sync.WaitGroup) {
	if s, g := me(); s != nil {
		park(s, g, msg{kind: kWGDone, obj: reflect.ValueOf(wg).Pointer()})
	}
}

//go:norace
func BeforeWait(wg *sync.WaitGroup) {
	if s, g := me(); s != nil {
		park(s, g, msg{kind: kWGWait, obj: reflect.ValueOf(wg).Pointer()})
	}
}

//go:norace
func BeforeLock(mu interface{}) {
	if s, g := me(); s != nil {
		park(s, g, msg{kind: kLock, obj: reflect.ValueOf(mu).Pointer()})
	}
}

//go:norace
func BeforeUnlock(mu interface{}) {
	if s, g := me(); s != nil {
		park(s, g, msg{kind: kUnlock, obj: reflect.ValueOf(mu).Pointer()})
	}
}

// NumCPU is the simulated CPU count knob.
func NumCPU() int {
	if s := cur.Load(); s != nil && s.cfg.NumCPU > 0 {
		return s.cfg.NumCPU
	}
	return runtime.NumCPU()
}

// Choose lets the scheduler pick a value in [0,n) (a buggify point).
//go:norace
func Choose(n int, label string) int {
	if n <= 1 {
		return 0
	}
	if s, g := me(); s != nil {
		return park(s, g, msg{kind: kChoose, n: n, label: label})
	}
	return 0
}

// Probe counts a rare condition reached inside the simulation.
//go:norace
func Probe(name string) {
	if s, g := me(); s != nil {
		park(s, g, msg{kind: kYield, label: "probe:" + name})
	}
}

// Pool replaces sync.Pool in the instrumented copy: which stored item Get
// returns (or a fresh one) is a scheduler decision, so recycling is
// adversarial and replayable. The mutex gives the detector the same
// happens-before edge sync.Pool provides between Put and Get.
type Pool struct {
	New   func() interface{}
	mu    sync.Mutex
	items []interface{}
	reg   bool
}

var (
	poolsMu sync.Mutex
	pools   []*Pool
)

func (p *Pool) register() {
	if !p.reg {
		p.reg = true
		poolsMu.Lock()
		pools = append(pools, p)
		poolsMu.Unlock()
	}
}

// ResetPools empties every pool seen so far, so that a simulated run does not
// depend on what earlier runs in the same process left behind.
func ResetPools() {
	poolsMu.Lock()
	defer poolsMu.Unlock()
	for _, p := range pools {
		p.mu.Lock()
		p.items = nil
		p.mu.Unlock()
	}
}

func (p *Pool) Get() interface{} {
	if cur.Load() == nil {
		p.mu.Lock()
		defer p.mu.Unlock()
		p.register()
		if n := len(p.items); n > 0 {
			x := p.items[n-1]
			p.items = p.items[:n-1]
			return x
		}
		if p.New != nil {
			return p.New()
		}
		return nil
	}
	p.mu.Lock()
	p.register()
	n := len(p.items)
	p.mu.Unlock()
	k := Choose(n+1, "pool.Get")
	p.mu.Lock()
	var x interface{}
	if k < len(p.items) {
		x = p.items[k]
		p.items = append(p.items[:k], p.items[k+1:]...)
		p.mu.Unlock()
	} else {
		p.mu.Unlock()
		if p.New != nil {
			x = p.New()
		}
	}
	// another goroutine may run between obtaining a pooled object and its first use
	Yield("pool.Got")
	return x
}

func (p *Pool) Put(x interface{}) {
	Yield("pool.Put")
	p.mu.Lock()
	p.register()
	p.items = append(p.items, x)
	if len(p.items) > 64 {
		p.items = p.items[1:]
	}
	p.mu.Unlock()
}

// ---------------------------------------------------------------- scheduler

// Run executes fn as simulated goroutine "0" on the calling goroutine. The
// schedule is a pure function of cfg and the code.
func Run(cfg Config, fn func()) (res Result) {
	if !Instrumented {
		// plain build: nothing to control
		defer func() {
			if r := recover(); r != nil {
				res.RootPanic = r
			}
		}()
		fn()
		return
	}
	if cfg.MaxDecisions == 0 {
		cfg.MaxDecisions = 20000
	}
	s := &sched{cfg: cfg, events: make(chan msg, 256), rng: cfg.Seed ^ 0xD1B54A32D192ED03,
		closed: map[uintptr]bool{}, wg: map[uintptr]int{}, locked: map[uintptr]bool{}, labels: map[uintptr]int{}, objSeq: map[int][]int{},
		done: make(chan Result, 1), pctDrop: map[int]bool{}}
	s.res.Probes = map[string]int{}
	if cfg.Policy == "pct" {
		for i := 0; i < 1+int(s.rand()%3); i++ {
			s.pctDrop[int(s.rand()%400)] = true
		}
	}
	g0 := &gor{id: "0", wake: make(chan int, 1)}
	g0.prio = int(s.rand() % 1000)
	s.gs = append(s.gs, g0)
	s.running = 1
	s.starve = -1
	if cfg.Policy == "starve" {
		s.starve = 1 + int(s.rand()%6)
	}
	if cur.Load() != nil {
		panic("simrt: nested or concurrent Run")
	}
	gtabReset()
	id := goid()
	gtabStore(id, g0)
	cur.Store(s)
	go s.loop() // visible go: the scheduler goroutine keeps normal happens-before bookkeeping for std code it calls
	var rootPanic interface{}
	func() {
		defer func() {
			if r := recover(); r != nil {
				if _, isAbort := r.(abortT); !isAbort {
					rootPanic = r
				}
			}
		}()
		fn()
	}()
	raceDisable()
	s.events <- msg{typ: 3, g: g0}
	raceEnable()
	res = <-s.done // visible synchronisation: hand-off of the recorded trace
	res.RootPanic = rootPanic
	cur.Store(nil)
	gtabDelete(id)
	return res
}

//go:norace
func (s *sched) label(p uintptr) int {
	if l, ok := s.labels[p]; ok {
		return l
	}
	l := len(s.labels) + 1
	s.labels[p] = l
	return l
}

func chanLenCap(v reflect.Value) (int, int) { return v.Len(), v.Cap() }

// partner finds a parked goroutine with the complementary intent on an unbuffered channel.
//go:norace
func (s *sched) partners(ch uintptr, wantDir int, self *gor) []*gor {
	var out []*gor
	for _, g := range s.gs {
		if !g.parked || g == self {
			continue
		}
		switch g.m.kind {
		case kSend:
			if wantDir == SendDir && g.m.obj == ch {
				out = append(out, g)
			}
		case kRecv:
			if wantDir == RecvDir && g.m.obj == ch {
				out = append(out, g)
			}
		case kSelect:
			for _, c := range g.m.cases {
				if c.ch == ch && c.dir == wantDir {
					out = append(out, g)
					break
				}
			}
		}
	}
	return out
}

// opEnabled: can a send (dir=SendDir) or receive on ch proceed now?
//go:norace
func (s *sched) opEnabled(ch uintptr, v reflect.Value, dir int, self *gor) bool {
	if ch == 0 {
		return false // nil channel blocks forever
	}
	if s.closed[ch] {
		return true // send panics, receive yields zero values: both proceed
	}
	l, c := chanLenCap(v)
	if dir == SendDir {
		if c > 0 {
			return l < c
		}
		return len(s.partners(ch, RecvDir, self)) > 0
	}
	if l > 0 {
		return true
	}
	if c == 0 {
		return len(s.partners(ch, SendDir, self)) > 0
	}
	return false
}

//go:norace
func (s *sched) enabled(g *gor) bool {
	m := &g.m
	switch m.kind {
	case kSend:
		return s.opEnabled(m.obj, m.chv, SendDir, g)
	case kRecv:
		return s.opEnabled(m.obj, m.chv, RecvDir, g)
	case kSelect:
		if m.hasDef {
			return true
		}
		for _, c := range m.cases {
			if s.opEnabled(c.ch, c.chv, c.dir, g) {
				return true
			}
		}
		return false
	case kWGWait:
		return s.wg[m.obj] <= 0
	case kLock:
		return !s.locked[m.obj]
	}
	return true
}

//go:norace
func (s *sched) note(obj uintptr, g *gor) {
	if obj == 0 {
		return
	}
	l := s.label(obj)
	s.objSeq[l] = append(s.objSeq[l], g.num)
}

// release lets g perform its intent; val is handed to the parked hook.
//go:norace
func (s *sched) release(g *gor, val int) {
	g.parked = false
	s.running++
	s.res.Steps++
	if s.last != g {
		s.res.Switches++
		s.last = g
	}
	g.wake <- val
}

//go:norace
func (s *sched) loop() {
	watch := time.NewTimer(time.Hour)
	for {
		// wait until every released goroutine has parked again or exited
		for s.running > 0 {
			watch.Reset(30 * time.Second)
			var m msg
			raceDisable()
			select {
			case m = <-s.events:
				raceEnable()
			case <-watch.C:
				raceEnable()
				fmt.Printf("SIMRT-STUCK: a released goroutine did not come back within 30s (enabledness model wrong, or a loop without synchronisation); last=%v\n", s.last.id)
				exitStuck()
			}
			switch m.typ {
			case 0:
				m.g.parked = true
				m.g.m = m
				s.running--
				if m.kind == kYield && strings.HasPrefix(m.label, "probe:") {
					s.res.Probes[m.label[6:]]++
				}
			case 1:
				c := m.child
				c.num = len(s.gs)
				c.prio = int(s.rand() % 1000)
				s.gs = append(s.gs, c)
				s.running++ // the child runs until it parks at its start intent
			case 2:
				s.running--
				if m.panicS != "" {
					s.res.Panics = append(s.res.Panics, m.g.id+": "+m.panicS)
				}
				m.g.m = msg{kind: -1}
			case 3:
				s.rootDone = true
				s.running--
			}
		}
		// decision point: everything is quiescent
		var en []*gor
		anyParked := false
		for _, g := range s.gs {
			if g.parked {
				anyParked = true
				if s.enabled(g) {
					en = append(en, g)
				}
			}
		}
		if len(en) == 0 {
			if anyParked {
				var names []string
				for _, g := range s.gs {
					if g.parked {
						names = append(names, fmt.Sprintf("%s@%s", g.id, kindNames[g.m.kind]))
					}
				}
				if !s.rootDone {
					s.res.Deadlock = strings.Join(names, " ")
				} else {
					s.res.Leaked = names
				}
				// unwind everything that is still parked
				s.res.Aborted = true
				for _, g := range s.gs {
					if g.parked {
						g.parked = false
						s.running++
						g.wake <- -2
					}
				}
				s.abort = true
				continue
			}
			if s.rootDone {
				s.finish()
				return
			}
			// nothing parked, root not done: cannot happen (root would be running)
			fmt.Println("SIMRT-STUCK: no goroutine parked and root not done")
			exitStuck()
		}
		sort.Slice(en, func(i, j int) bool { return en[i].num < en[j].num })
		pick := s.choose(en)
		g := en[pick]
		s.perform(g)
	}
}

var exitStuck = func() { panic("simrt stuck") }

// SetStuckHandler installs what happens when the scheduler loses a goroutine.
func SetStuckHandler(f func()) { exitStuck = f }

//go:norace
func (s *sched) choose(en []*gor) int {
	if len(en) == 1 {
		return 0
	}
	s.res.Decisions++
	d := s.dec
	s.dec++
	pick := 0
	if d < len(s.cfg.Choices) || s.cfg.Choices != nil {
		if d < len(s.cfg.Choices) && s.cfg.Choices[d] >= 0 && int(s.cfg.Choices[d]) < len(en) {
			pick = int(s.cfg.Choices[d])
		}
	} else if s.res.Decisions > s.cfg.MaxDecisions {
		pick = 0
	} else {
		switch s.cfg.Policy {
		case "lowest":
			pick = 0
		case "pct":
			best := -1
			for i, g := range en {
				if best < 0 || g.prio > en[best].prio {
					best = i
				}
			}
			pick = best
			if s.pctDrop[d] {
				en[pick].prio = -d // demote the leader at a drop point
			}
		case "starve":
			var rest []int
			for i, g := range en {
				if g.num != s.starve {
					rest = append(rest, i)
				}
			}
			if len(rest) > 0 {
				pick = rest[int(s.rand()%uint64(len(rest)))]
			}
		default:
			pick = int(s.rand() % uint64(len(en)))
		}
	}
	s.res.Choices = append(s.res.Choices, int32(pick))
	return pick
}

// perform updates the tracked state for g's intent and releases it (with its
// rendezvous partner when the channel is unbuffered).
//go:norace
func (s *sched) perform(g *gor) {
	m := &g.m
	switch m.kind {
	case kClose:
		s.closed[m.obj] = true
		s.note(m.obj, g)
		s.release(g, 0)
	case kWGAdd:
		s.wg[m.obj] += m.n
		s.note(m.obj, g)
		s.release(g, 0)
	case kWGDone:
		s.wg[m.obj]--
		s.note(m.obj, g)
		s.release(g, 0)
	case kLock:
		s.locked[m.obj] = true
		s.note(m.obj, g)
		s.release(g, 0)
	case kUnlock:
		s.locked[m.obj] = false
		s.note(m.obj, g)
		s.release(g, 0)
	case kChoose:
		s.release(g, int(s.rand()%uint64(m.n)))
	case kSend, kRecv:
		dir := SendDir
		if m.kind == kRecv {
			dir = RecvDir
		}
		s.doComm(g, m.obj, m.chv, dir, 0)
	case kSelect:
		var ready []int
		for i, c := range m.cases {
			if s.opEnabled(c.ch, c.chv, c.dir, g) {
				ready = append(ready, i)
			}
		}
		if len(ready) == 0 {
			s.release(g, -1) // default
			return
		}
		i := ready[0]
		if len(ready) > 1 {
			i = ready[int(s.rand()%uint64(len(ready)))]
			s.res.Probes["select-several-ready"]++
		}
		s.res.Probes[fmt.Sprintf("select-arm-%d", i)]++
		c := m.cases[i]
		s.doComm(g, c.ch, c.chv, c.dir, i)
	default:
		s.release(g, 0)
	}
}

// doComm releases g for a channel operation; for an unbuffered channel that is
// open, the complementary goroutine is released with it.
//go:norace
func (s *sched) doComm(g *gor, ch uintptr, v reflect.Value, dir int, val int) {
	s.note(ch, g)
	if !s.closed[ch] {
		l, c := chanLenCap(v)
		if c == 0 {
			want := RecvDir
			if dir == RecvDir {
				want = SendDir
			}
			ps := s.partners(ch, want, g)
			if len(ps) > 0 {
				p := ps[0]
				if len(ps) > 1 {
					p = ps[int(s.rand()%uint64(len(ps)))]
				}
				pval := 0
				if p.m.kind == kSelect {
					for i, cs := range p.m.cases {
						if cs.ch == ch && cs.dir == want {
							pval = i
							break
						}
					}
				}
				s.note(ch, p)
				s.res.Probes["unbuffered-rendezvous"]++
				s.release(p, pval)
			}
		} else if dir == SendDir && l == c-1 {
			s.res.Probes["channel-filled-to-capacity"]++
		}
	}
	s.release(g, val)
}

//go:norace
func (s *sched) finish() {
	h := uint64(14695981039346656037)
	mix := func(v uint64) { h ^= v; h *= 1099511628211 }
	ls := make([]int, 0, len(s.objSeq))
	for l := range s.objSeq {
		ls = append(ls, l)
	}
	sort.Ints(ls)
	for _, l := range ls {
		mix(uint64(l) << 32)
		for _, g := range s.objSeq[l] {
			mix(uint64(g))
		}
	}
	s.res.Fingerprint = h
	s.res.Goroutines = len(s.gs)
	s.done <- s.res
}
