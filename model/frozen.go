package model

import (
	"encoding/binary"
	"errors"
)

// Independent reader of the CRoaring frozen layout, written from the format
// comment: <bitset arena><run arena><array arena><keys u16[n]><counts u16[n]>
// <typecodes u8[n]><header u32 = cookie(15 bits) | n<<15>.

const frozenCookie15 = 13766

// FrozenLayout names the byte ranges of a frozen stream.
type FrozenLayout struct {
	N                                              int
	Bitsets, Runs, Arrays, Keys, Counts, Types, Hdr [2]int
}

// ParseFrozen decodes a frozen stream into a set.
func ParseFrozen(b []byte) (*Set32, *FrozenLayout, error) {
	if len(b) < 4 {
		return nil, nil, errors.New("short")
	}
	hdr := binary.LittleEndian.Uint32(b[len(b)-4:])
	if hdr&0x7FFF != frozenCookie15 {
		return nil, nil, errors.New("bad cookie")
	}
	n := int(hdr >> 15)
	if len(b) < 4+5*n {
		return nil, nil, errors.New("short tables")
	}
	L := &FrozenLayout{N: n}
	end := len(b) - 4
	L.Hdr = [2]int{end, len(b)}
	L.Types = [2]int{end - n, end}
	L.Counts = [2]int{end - 3*n, end - n}
	L.Keys = [2]int{end - 5*n, end - 3*n}
	types := b[L.Types[0]:L.Types[1]]
	count := func(i int) int { return int(binary.LittleEndian.Uint16(b[L.Counts[0]+2*i:])) }
	key := func(i int) uint16 { return binary.LittleEndian.Uint16(b[L.Keys[0]+2*i:]) }
	nb, nrEl, naEl := 0, 0, 0
	for i, t := range types {
		switch t {
		case 1:
			nb++
		case 2:
			naEl += count(i) + 1
		case 3:
			nrEl += count(i)
		default:
			return nil, nil, errors.New("bad typecode")
		}
	}
	if 8192*nb+4*nrEl+2*naEl != L.Keys[0] {
		return nil, nil, errors.New("arena sizes do not add up")
	}
	L.Bitsets = [2]int{0, 8192 * nb}
	L.Runs = [2]int{8192 * nb, 8192*nb + 4*nrEl}
	L.Arrays = [2]int{L.Runs[1], L.Keys[0]}
	bp, rp, ap := 0, L.Runs[0], L.Arrays[0]
	out := NewSet32()
	for i, t := range types {
		if i > 0 && key(i-1) >= key(i) {
			return nil, nil, errors.New("keys not increasing")
		}
		base := uint32(key(i)) << 16
		switch t {
		case 1:
			cnt := 0
			for wi := 0; wi < 1024; wi++ {
				w := binary.LittleEndian.Uint64(b[bp+8*wi:])
				for bit := 0; bit < 64; bit++ {
					if w&(1<<uint(bit)) != 0 {
						out.Add(base | uint32(wi*64+bit))
						cnt++
					}
				}
			}
			if cnt != count(i)+1 {
				return nil, nil, errors.New("bitset count field is not cardinality-1")
			}
			bp += 8192
		case 2:
			prev := -1
			for j := 0; j <= count(i); j++ {
				v := int(binary.LittleEndian.Uint16(b[ap:]))
				if v <= prev {
					return nil, nil, errors.New("array not increasing")
				}
				prev = v
				out.Add(base | uint32(v))
				ap += 2
			}
		case 3:
			prev := -2
			if count(i) == 0 {
				return nil, nil, errors.New("run chunk without runs")
			}
			for j := 0; j < count(i); j++ {
				s := int(binary.LittleEndian.Uint16(b[rp:]))
				l := int(binary.LittleEndian.Uint16(b[rp+2:]))
				if s <= prev+1 || s+l > 65535 {
					return nil, nil, errors.New("illegal runs")
				}
				out.AddRange(uint64(base)+uint64(s), uint64(base)+uint64(s+l)+1)
				prev = s + l
				rp += 4
			}
		}
	}
	return out, L, nil
}

// EncodeFrozen lays a stream out in the frozen format exactly as it is described:
// whatever kind each chunk declares, whatever its cardinality (the portable
// format derives array/bitmap from the cardinality; the frozen format stores a
// typecode, so a stream may declare an array of 5000 values or a bitmap of 10).
func EncodeFrozen(s *Stream32) []byte {
	var bitsets, runs, arrays, keys, counts, types []byte
	for _, c := range s.Chunks {
		keys = binary.LittleEndian.AppendUint16(keys, c.Key)
		switch c.Kind {
		case 0:
			for _, w := range c.Words {
				bitsets = binary.LittleEndian.AppendUint64(bitsets, w)
			}
			counts = binary.LittleEndian.AppendUint16(counts, c.CardField)
			types = append(types, 1)
		case 1:
			for _, v := range c.Vals {
				arrays = binary.LittleEndian.AppendUint16(arrays, v)
			}
			counts = binary.LittleEndian.AppendUint16(counts, uint16(len(c.Vals)-1))
			types = append(types, 2)
		default:
			for _, r := range c.Runs {
				runs = binary.LittleEndian.AppendUint16(runs, r[0])
				runs = binary.LittleEndian.AppendUint16(runs, r[1])
			}
			counts = binary.LittleEndian.AppendUint16(counts, uint16(len(c.Runs)))
			types = append(types, 3)
		}
	}
	out := append(append(append(append(append(bitsets, runs...), arrays...), keys...), counts...), types...)
	return binary.LittleEndian.AppendUint32(out, uint32(frozenCookie15)|uint32(len(s.Chunks))<<15)
}

// Rekind re-expresses a chunk's contents in another representation, ignoring the
// cardinality rule that normally decides between array and bitmap.
func (c *SChunk) Rekind(kind int) {
	var w [1024]uint64
	switch c.Kind {
	case 0:
		copy(w[:], c.Words)
	case 1:
		for _, v := range c.Vals {
			w[v>>6] |= 1 << (v & 63)
		}
	default:
		for _, r := range c.Runs {
			for x := int(r[0]); x <= int(r[0])+int(r[1]) && x < 65536; x++ {
				w[x>>6] |= 1 << (uint(x) & 63)
			}
		}
	}
	card := 0
	c.Words, c.Vals, c.Runs = nil, nil, nil
	c.Kind = kind
	start := -1
	for i := 0; i <= 65536; i++ {
		set := i < 65536 && w[i>>6]&(1<<(uint(i)&63)) != 0
		if set {
			card++
			if kind == 1 {
				c.Vals = append(c.Vals, uint16(i))
			}
			if start < 0 {
				start = i
			}
		} else if start >= 0 {
			if kind == 2 {
				c.Runs = append(c.Runs, [2]uint16{uint16(start), uint16(i - 1 - start)})
			}
			start = -1
		}
	}
	if kind == 0 {
		c.Words = append([]uint64(nil), w[:]...)
	}
	c.CardField = uint16(card - 1)
}
