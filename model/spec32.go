package model

import (
	"encoding/binary"
	"errors"
	"fmt"
)

// Independent codec for the portable RoaringFormatSpec (32-bit), written from
// the published specification; it shares no code with the library. The encoder
// is choice-driven and can also emit illegal streams (fields are plain data).

// SChunk is one container as it appears on the wire.
type SChunk struct {
	Key       uint16
	Kind      int      // 0 bitmap, 1 array, 2 run
	CardField uint16   // cardinality-1 as stored in the descriptive header
	Vals      []uint16 // array payload
	Words     []uint64 // bitmap payload (1024 words)
	Runs      [][2]uint16
	NRunField *uint16 // override of the run-count field
}

// Stream32 is a whole stream.
type Stream32 struct {
	RunCookie    bool      // use the 12347 cookie (required if any run chunk)
	Chunks       []SChunk
	CookieField  *uint32   // override
	SizeField    *uint32   // override of the container count (no-run cookie only)
	Offsets      []uint32  // override of the offset header (nil = computed)
	ForceOffsets *bool     // override presence of the offset header
}

// Field is a named byte range of an encoded stream.
type Field struct {
	Name       string
	Start, End int
}

const (
	cookieRun   = 12347
	cookieNoRun = 12346
)

// Encode serialises s and reports the layout.
func (s *Stream32) Encode() ([]byte, []Field) {
	var b []byte
	var fields []Field
	n := len(s.Chunks)
	mark := func(name string, start int) { fields = append(fields, Field{name, start, len(b)}) }
	p32 := func(v uint32) { b = binary.LittleEndian.AppendUint32(b, v) }
	p16 := func(v uint16) { b = binary.LittleEndian.AppendUint16(b, v) }
	st := len(b)
	if s.RunCookie {
		c := uint32(cookieRun) | uint32(n-1)<<16
		if s.CookieField != nil {
			c = *s.CookieField
		}
		p32(c)
		mark("cookie", st)
		st = len(b)
		rb := make([]byte, (n+7)/8)
		for i, c := range s.Chunks {
			if c.Kind == 2 {
				rb[i/8] |= 1 << (i % 8)
			}
		}
		b = append(b, rb...)
		mark("runflags", st)
	} else {
		c := uint32(cookieNoRun)
		if s.CookieField != nil {
			c = *s.CookieField
		}
		p32(c)
		mark("cookie", st)
		st = len(b)
		sz := uint32(n)
		if s.SizeField != nil {
			sz = *s.SizeField
		}
		p32(sz)
		mark("size", st)
	}
	st = len(b)
	for _, c := range s.Chunks {
		p16(c.Key)
		p16(c.CardField)
	}
	mark("keycards", st)
	hasOff := !s.RunCookie || n >= 4
	if s.ForceOffsets != nil {
		hasOff = *s.ForceOffsets
	}
	offPos := len(b)
	if hasOff {
		st = len(b)
		for i := 0; i < n; i++ {
			p32(0)
		}
		mark("offsets", st)
	}
	for i, c := range s.Chunks {
		if hasOff {
			off := uint32(len(b))
			if s.Offsets != nil && i < len(s.Offsets) {
				off = s.Offsets[i]
			}
			binary.LittleEndian.PutUint32(b[offPos+4*i:], off)
		}
		st = len(b)
		switch c.Kind {
		case 1:
			for _, v := range c.Vals {
				p16(v)
			}
		case 0:
			for _, w := range c.Words {
				b = binary.LittleEndian.AppendUint64(b, w)
			}
		case 2:
			nr := uint16(len(c.Runs))
			if c.NRunField != nil {
				nr = *c.NRunField
			}
			p16(nr)
			for _, r := range c.Runs {
				p16(r[0])
				p16(r[1])
			}
		}
		mark(fmt.Sprintf("payload%d", i), st)
	}
	return b, fields
}

// Decode32 parses a spec-conformant stream; it is strict about lengths only.
func Decode32(b []byte) (*Stream32, int, error) {
	pos := 0
	need := func(n int) error {
		if pos+n > len(b) {
			return errors.New("short stream")
		}
		return nil
	}
	if err := need(4); err != nil {
		return nil, 0, err
	}
	cookie := binary.LittleEndian.Uint32(b)
	pos = 4
	s := &Stream32{}
	var n int
	var runflags []byte
	switch {
	case cookie&0xFFFF == cookieRun:
		s.RunCookie = true
		n = int(cookie>>16) + 1
		if err := need((n + 7) / 8); err != nil {
			return nil, 0, err
		}
		runflags = b[pos : pos+(n+7)/8]
		pos += (n + 7) / 8
	case cookie == cookieNoRun:
		if err := need(4); err != nil {
			return nil, 0, err
		}
		n = int(binary.LittleEndian.Uint32(b[pos:]))
		pos += 4
	default:
		return nil, 0, errors.New("bad cookie")
	}
	if n > 65536 {
		return nil, 0, errors.New("too many containers")
	}
	if err := need(4 * n); err != nil {
		return nil, 0, err
	}
	s.Chunks = make([]SChunk, n)
	for i := 0; i < n; i++ {
		s.Chunks[i].Key = binary.LittleEndian.Uint16(b[pos:])
		s.Chunks[i].CardField = binary.LittleEndian.Uint16(b[pos+2:])
		pos += 4
	}
	if !s.RunCookie || n >= 4 {
		if err := need(4 * n); err != nil {
			return nil, 0, err
		}
		pos += 4 * n
	}
	for i := 0; i < n; i++ {
		c := &s.Chunks[i]
		card := int(c.CardField) + 1
		isRun := runflags != nil && runflags[i/8]&(1<<(i%8)) != 0
		switch {
		case isRun:
			c.Kind = 2
			if err := need(2); err != nil {
				return nil, 0, err
			}
			nr := int(binary.LittleEndian.Uint16(b[pos:]))
			pos += 2
			if err := need(4 * nr); err != nil {
				return nil, 0, err
			}
			for j := 0; j < nr; j++ {
				c.Runs = append(c.Runs, [2]uint16{binary.LittleEndian.Uint16(b[pos:]), binary.LittleEndian.Uint16(b[pos+2:])})
				pos += 4
			}
		case card > 4096:
			c.Kind = 0
			if err := need(8192); err != nil {
				return nil, 0, err
			}
			c.Words = make([]uint64, 1024)
			for j := range c.Words {
				c.Words[j] = binary.LittleEndian.Uint64(b[pos:])
				pos += 8
			}
		default:
			c.Kind = 1
			if err := need(2 * card); err != nil {
				return nil, 0, err
			}
			c.Vals = make([]uint16, card)
			for j := range c.Vals {
				c.Vals[j] = binary.LittleEndian.Uint16(b[pos:])
				pos += 2
			}
		}
	}
	return s, pos, nil
}

// Set returns the set the stream encodes, or an error if it is not a legal encoding.
func (s *Stream32) Set() (*Set32, error) {
	out := NewSet32()
	for i, c := range s.Chunks {
		if i > 0 && s.Chunks[i-1].Key >= c.Key {
			return nil, errors.New("keys not increasing")
		}
		base := uint32(c.Key) << 16
		cnt := 0
		switch c.Kind {
		case 1:
			for j, v := range c.Vals {
				if j > 0 && c.Vals[j-1] >= v {
					return nil, errors.New("array not increasing")
				}
				out.Add(base | uint32(v))
				cnt++
			}
		case 0:
			for wi, w := range c.Words {
				for bit := 0; bit < 64; bit++ {
					if w&(1<<uint(bit)) != 0 {
						out.Add(base | uint32(wi*64+bit))
						cnt++
					}
				}
			}
		case 2:
			prev := -2
			for _, r := range c.Runs {
				s0, e := int(r[0]), int(r[0])+int(r[1])
				if e > 65535 || s0 <= prev+1 {
					return nil, errors.New("illegal runs")
				}
				out.AddRange(uint64(base)+uint64(s0), uint64(base)+uint64(e)+1)
				cnt += e - s0 + 1
				prev = e
			}
		}
		if cnt == 0 || cnt != int(c.CardField)+1 {
			return nil, errors.New("cardinality field mismatch")
		}
	}
	return out, nil
}

// EncodeSet32 encodes a set with per-chunk kind choices made by choose
// (0 bitmap-or-array by cardinality, 2 run); runCookie forces the run cookie.
func EncodeSet32(m *Set32, runCookie bool, choose func(key uint16, card int) int) *Stream32 {
	s := &Stream32{RunCookie: runCookie}
	for _, k := range m.Keys() {
		w := m.ChunkWords(k)
		card := m.ChunkCard(k)
		c := SChunk{Key: k, CardField: uint16(card - 1)}
		kind := choose(k, card)
		if kind == 2 {
			s.RunCookie = true
			c.Kind = 2
			start := -1
			for i := 0; i <= 65536; i++ {
				set := i < 65536 && w[i>>6]&(1<<(uint(i)&63)) != 0
				if set && start < 0 {
					start = i
				}
				if !set && start >= 0 {
					c.Runs = append(c.Runs, [2]uint16{uint16(start), uint16(i - 1 - start)})
					start = -1
				}
			}
		} else if card > 4096 {
			c.Kind = 0
			c.Words = append([]uint64(nil), w[:]...)
		} else {
			c.Kind = 1
			for i := 0; i < 65536; i++ {
				if w[i>>6]&(1<<(uint(i)&63)) != 0 {
					c.Vals = append(c.Vals, uint16(i))
				}
			}
		}
		s.Chunks = append(s.Chunks, c)
	}
	return s
}
