package model

import "sort"

// Set64 is a set of uint64: a map from the high 32 bits to a Set32.
type Set64 struct {
	b map[uint32]*Set32
}

func NewSet64() *Set64 { return &Set64{b: map[uint32]*Set32{}} }

func (s *Set64) bucket(h uint32) *Set32 {
	x := s.b[h]
	if x == nil {
		x = NewSet32()
		s.b[h] = x
	}
	return x
}

func (s *Set64) drop(h uint32) {
	if x := s.b[h]; x != nil && x.IsEmpty() {
		delete(s.b, h)
	}
}

func (s *Set64) Contains(x uint64) bool {
	b := s.b[uint32(x>>32)]
	return b != nil && b.Contains(uint32(x))
}

func (s *Set64) Add(x uint64) bool { return s.bucket(uint32(x >> 32)).Add(uint32(x)) }

func (s *Set64) Remove(x uint64) bool {
	h := uint32(x >> 32)
	b := s.b[h]
	if b == nil {
		return false
	}
	r := b.Remove(uint32(x))
	s.drop(h)
	return r
}

// pieces splits [start,end) per bucket: (bucket, lo, hiExclusive as uint64 <= 2^32).
func pieces64(start, end uint64, f func(h uint32, lo, hi uint64)) {
	for start < end {
		h := uint32(start >> 32)
		bEnd := (uint64(h) + 1) << 32 // wraps to 0 for the last bucket
		e := end
		if bEnd != 0 && e > bEnd {
			e = bEnd
		}
		f(h, start&0xFFFFFFFF, (e-1)&0xFFFFFFFF+1)
		if e == end {
			return
		}
		start = e
	}
}

func (s *Set64) AddRange(start, end uint64) {
	pieces64(start, end, func(h uint32, lo, hi uint64) { s.bucket(h).AddRange(lo, hi) })
}

func (s *Set64) RemoveRange(start, end uint64) {
	pieces64(start, end, func(h uint32, lo, hi uint64) {
		if b := s.b[h]; b != nil {
			b.RemoveRange(lo, hi)
			s.drop(h)
		}
	})
}

func (s *Set64) FlipRange(start, end uint64) {
	pieces64(start, end, func(h uint32, lo, hi uint64) {
		s.bucket(h).FlipRange(lo, hi)
		s.drop(h)
	})
}

func (s *Set64) Clear() { s.b = map[uint32]*Set32{} }

func (s *Set64) Clone() *Set64 {
	n := NewSet64()
	for h, b := range s.b {
		n.b[h] = b.Clone()
	}
	return n
}

func (s *Set64) IsEmpty() bool { return len(s.b) == 0 }

func (s *Set64) Card() uint64 {
	var n uint64
	for _, b := range s.b {
		n += b.Card()
	}
	return n
}

func (s *Set64) Buckets() []uint32 {
	ks := make([]uint32, 0, len(s.b))
	for k := range s.b {
		ks = append(ks, k)
	}
	sort.Slice(ks, func(i, j int) bool { return ks[i] < ks[j] })
	return ks
}

func (s *Set64) Bucket(h uint32) *Set32 { return s.b[h] }

func (s *Set64) Each(f func(x uint64) bool) {
	for _, h := range s.Buckets() {
		stop := false
		s.b[h].Each(func(v uint32) bool {
			if !f(uint64(h)<<32 | uint64(v)) {
				stop = true
				return false
			}
			return true
		})
		if stop {
			return
		}
	}
}

func (s *Set64) Slice() []uint64 {
	out := make([]uint64, 0, s.Card())
	s.Each(func(x uint64) bool { out = append(out, x); return true })
	return out
}

func (s *Set64) Equal(o *Set64) bool {
	if len(s.b) != len(o.b) {
		return false
	}
	for h, b := range s.b {
		c := o.b[h]
		if c == nil || !b.Equal(c) {
			return false
		}
	}
	return true
}

func bin64(a, b *Set64, f func(x, y *Set32) *Set32) *Set64 {
	n := NewSet64()
	empty := NewSet32()
	seen := map[uint32]bool{}
	do := func(h uint32) {
		if seen[h] {
			return
		}
		seen[h] = true
		x, y := a.b[h], b.b[h]
		if x == nil {
			x = empty
		}
		if y == nil {
			y = empty
		}
		if r := f(x, y); !r.IsEmpty() {
			n.b[h] = r
		}
	}
	for h := range a.b {
		do(h)
	}
	for h := range b.b {
		do(h)
	}
	return n
}

func And64(a, b *Set64) *Set64    { return bin64(a, b, And32) }
func Or64(a, b *Set64) *Set64     { return bin64(a, b, Or32) }
func Xor64(a, b *Set64) *Set64    { return bin64(a, b, Xor32) }
func AndNot64(a, b *Set64) *Set64 { return bin64(a, b, AndNot32) }
