package model
import ("testing";"math/rand")
func naive(a,b *Set32, f func(x,y bool) bool) *Set32 { n:=NewSet32(); seen:=map[uint16]bool{}; for _,s:=range []*Set32{a,b}{ for k:=range s.m { if seen[k]{continue}; seen[k]=true; for i:=0;i<65536;i++{ v:=uint32(k)<<16|uint32(i); if f(a.Contains(v),b.Contains(v)){n.Add(v)} } } }; return n }
func TestBinop(t *testing.T){ r:=rand.New(rand.NewSource(1)); for it:=0;it<60;it++{ mk:=func()*Set32{ s:=NewSet32(); for k:=0;k<3;k++{ switch r.Intn(4){ case 0: s.AddRange(uint64(k)<<16,uint64(k+1)<<16); case 1: for i:=0;i<100;i++{s.Add(uint32(k)<<16|uint32(r.Intn(65536)))}; case 2: s.AddRange(uint64(k)<<16+uint64(r.Intn(100)),uint64(k+1)<<16-uint64(r.Intn(100))) } }; return s }; a,b:=mk(),mk()
 if !And32(a,b).Equal(naive(a,b,func(x,y bool)bool{return x&&y})) {t.Fatal("and")}
 if !Or32(a,b).Equal(naive(a,b,func(x,y bool)bool{return x||y})) {t.Fatal("or")}
 if !Xor32(a,b).Equal(naive(a,b,func(x,y bool)bool{return x!=y})) {t.Fatal("xor")}
 if !AndNot32(a,b).Equal(naive(a,b,func(x,y bool)bool{return x&&!y})) {t.Fatal("andnot")} } }
