// Package model holds the reference models: deliberately naive sets of
// integers that share no code, kernel or constant with the library.
package model

import (
	"math/bits"
	"sort"
)

// Chunk is 65536 bits.
type Chunk [1024]uint64

var fullChunk = func() *Chunk {
	c := new(Chunk)
	for i := range c {
		c[i] = ^uint64(0)
	}
	return c
}()

// Set32 is a set of uint32: a map from the high 16 bits to a bit array.
// The immutable fullChunk pointer may be shared by several keys (copied
// before any write); empty chunks are never stored.
type Set32 struct {
	m map[uint16]*Chunk
}

func NewSet32() *Set32 { return &Set32{m: map[uint16]*Chunk{}} }

func (s *Set32) writable(k uint16) *Chunk {
	c := s.m[k]
	if c == nil {
		c = new(Chunk)
		s.m[k] = c
	} else if c == fullChunk {
		c = new(Chunk)
		*c = *fullChunk
		s.m[k] = c
	}
	return c
}

func chunkEmpty(c *Chunk) bool {
	for _, w := range c {
		if w != 0 {
			return false
		}
	}
	return true
}

func (s *Set32) drop(k uint16) {
	if c := s.m[k]; c != nil && c != fullChunk && chunkEmpty(c) {
		delete(s.m, k)
	}
}

func (s *Set32) Contains(x uint32) bool {
	c := s.m[uint16(x>>16)]
	if c == nil {
		return false
	}
	l := x & 0xFFFF
	return c[l>>6]&(1<<(l&63)) != 0
}

// Add returns true if x was absent.
func (s *Set32) Add(x uint32) bool {
	if s.Contains(x) {
		return false
	}
	c := s.writable(uint16(x >> 16))
	l := x & 0xFFFF
	c[l>>6] |= 1 << (l & 63)
	return true
}

// Remove returns true if x was present.
func (s *Set32) Remove(x uint32) bool {
	if !s.Contains(x) {
		return false
	}
	k := uint16(x >> 16)
	c := s.writable(k)
	l := x & 0xFFFF
	c[l>>6] &^= 1 << (l & 63)
	s.drop(k)
	return true
}

// rangeOp applies f to every (key, lo, hi) piece of [start,end), lo..hi inclusive low bits.
func rangePieces(start, end uint64, f func(k uint16, lo, hi uint32)) {
	if end > 1<<32 {
		end = 1 << 32
	}
	for start < end {
		k := uint16(start >> 16)
		chunkEnd := (uint64(k) + 1) << 16
		e := end
		if e > chunkEnd {
			e = chunkEnd
		}
		f(k, uint32(start&0xFFFF), uint32((e-1)&0xFFFF))
		start = e
	}
}

func (s *Set32) AddRange(start, end uint64) {
	rangePieces(start, end, func(k uint16, lo, hi uint32) {
		if lo == 0 && hi == 0xFFFF {
			s.m[k] = fullChunk
			return
		}
		c := s.writable(k)
		for i := lo; i <= hi; i++ {
			c[i>>6] |= 1 << (i & 63)
		}
	})
}

func (s *Set32) RemoveRange(start, end uint64) {
	rangePieces(start, end, func(k uint16, lo, hi uint32) {
		if s.m[k] == nil {
			return
		}
		if lo == 0 && hi == 0xFFFF {
			delete(s.m, k)
			return
		}
		c := s.writable(k)
		for i := lo; i <= hi; i++ {
			c[i>>6] &^= 1 << (i & 63)
		}
		s.drop(k)
	})
}

func (s *Set32) FlipRange(start, end uint64) {
	rangePieces(start, end, func(k uint16, lo, hi uint32) {
		if lo == 0 && hi == 0xFFFF {
			if s.m[k] == nil {
				s.m[k] = fullChunk
				return
			}
			if s.m[k] == fullChunk {
				delete(s.m, k)
				return
			}
		}
		c := s.writable(k)
		for i := lo; i <= hi; i++ {
			c[i>>6] ^= 1 << (i & 63)
		}
		s.drop(k)
	})
}

func (s *Set32) Clear() { s.m = map[uint16]*Chunk{} }

func (s *Set32) Clone() *Set32 {
	n := NewSet32()
	for k, c := range s.m {
		if c == fullChunk {
			n.m[k] = c
		} else {
			cc := new(Chunk)
			*cc = *c
			n.m[k] = cc
		}
	}
	return n
}

func (s *Set32) IsEmpty() bool { return len(s.m) == 0 }

func (s *Set32) Card() uint64 {
	var n uint64
	for _, c := range s.m {
		if c == fullChunk {
			n += 65536
			continue
		}
		for _, w := range c {
			n += uint64(bits.OnesCount64(w))
		}
	}
	return n
}

// Keys returns the sorted chunk keys.
func (s *Set32) Keys() []uint16 {
	ks := make([]uint16, 0, len(s.m))
	for k := range s.m {
		ks = append(ks, k)
	}
	sort.Slice(ks, func(i, j int) bool { return ks[i] < ks[j] })
	return ks
}

func (s *Set32) NumChunks() int { return len(s.m) }

// ChunkCard returns the number of elements with high bits k.
func (s *Set32) ChunkCard(k uint16) int {
	c := s.m[k]
	if c == nil {
		return 0
	}
	if c == fullChunk {
		return 65536
	}
	n := 0
	for _, w := range c {
		n += bits.OnesCount64(w)
	}
	return n
}

// ChunkWords returns the (read-only) words of chunk k, or nil.
func (s *Set32) ChunkWords(k uint16) *Chunk { return s.m[k] }

// Each calls f on every element in increasing order until f returns false.
func (s *Set32) Each(f func(x uint32) bool) {
	for _, k := range s.Keys() {
		c := s.m[k]
		base := uint32(k) << 16
		for wi, w := range c {
			for w != 0 {
				t := bits.TrailingZeros64(w)
				if !f(base | uint32(wi<<6+t)) {
					return
				}
				w &= w - 1
			}
		}
	}
}

// Slice returns all elements in increasing order.
func (s *Set32) Slice() []uint32 {
	out := make([]uint32, 0, s.Card())
	s.Each(func(x uint32) bool { out = append(out, x); return true })
	return out
}

func (s *Set32) Equal(o *Set32) bool {
	if len(s.m) != len(o.m) {
		return false
	}
	for k, c := range s.m {
		d := o.m[k]
		if d == nil {
			return false
		}
		if c != d && *c != *d {
			return false
		}
	}
	return true
}

const (
	opAnd = iota
	opOr
	opXor
	opAndNot
)

func copyChunk(c *Chunk) *Chunk {
	if c == fullChunk {
		return c
	}
	n := new(Chunk)
	*n = *c
	return n
}

func isAllOnes(c *Chunk) bool {
	for _, w := range c {
		if w != ^uint64(0) {
			return false
		}
	}
	return true
}

// binop combines two sets chunk by chunk. Full chunks are a shared immutable
// sentinel, so universe-scale sets (65536 full chunks) cost O(keys), not O(bits).
func binop(a, b *Set32, op int) *Set32 {
	n := NewSet32()
	put := func(k uint16, c *Chunk) {
		if c == nil {
			return
		}
		if c != fullChunk {
			if chunkEmpty(c) {
				return
			}
			if isAllOnes(c) {
				c = fullChunk
			}
		}
		n.m[k] = c
	}
	calc := func(x, y *Chunk, f func(p, q uint64) uint64) *Chunk {
		c := new(Chunk)
		for i := range c {
			c[i] = f(x[i], y[i])
		}
		return c
	}
	var zero Chunk
	do := func(k uint16, x, y *Chunk) {
		switch op {
		case opAnd:
			switch {
			case x == nil || y == nil:
			case x == fullChunk:
				put(k, copyChunk(y))
			case y == fullChunk:
				put(k, copyChunk(x))
			default:
				put(k, calc(x, y, func(p, q uint64) uint64 { return p & q }))
			}
		case opOr:
			switch {
			case x == fullChunk || y == fullChunk:
				put(k, fullChunk)
			case x == nil:
				put(k, copyChunk(y))
			case y == nil:
				put(k, copyChunk(x))
			default:
				put(k, calc(x, y, func(p, q uint64) uint64 { return p | q }))
			}
		case opXor:
			switch {
			case x == fullChunk && y == fullChunk:
			case x == nil:
				put(k, copyChunk(y))
			case y == nil:
				put(k, copyChunk(x))
			default:
				put(k, calc(x, y, func(p, q uint64) uint64 { return p ^ q }))
			}
		default: // andnot
			switch {
			case x == nil || y == fullChunk:
			case y == nil:
				put(k, copyChunk(x))
			default:
				put(k, calc(x, y, func(p, q uint64) uint64 { return p &^ q }))
			}
		}
	}
	_ = zero
	for k, x := range a.m {
		do(k, x, b.m[k])
	}
	for k, y := range b.m {
		if _, seen := a.m[k]; !seen {
			do(k, nil, y)
		}
	}
	return n
}

func And32(a, b *Set32) *Set32    { return binop(a, b, opAnd) }
func Or32(a, b *Set32) *Set32     { return binop(a, b, opOr) }
func Xor32(a, b *Set32) *Set32    { return binop(a, b, opXor) }
func AndNot32(a, b *Set32) *Set32 { return binop(a, b, opAndNot) }

// IsFullChunk reports whether chunk k holds all 65536 values (as the shared sentinel or not).
func (s *Set32) IsFullChunk(k uint16) bool {
	c := s.m[k]
	return c != nil && (c == fullChunk || isAllOnes(c))
}

// EachInChunk calls f on every element of chunk k in increasing order until f returns false.
func (s *Set32) EachInChunk(k uint16, f func(x uint32) bool) {
	c := s.m[k]
	if c == nil {
		return
	}
	base := uint32(k) << 16
	for wi, w := range c {
		for w != 0 {
			t := bits.TrailingZeros64(w)
			if !f(base | uint32(wi<<6+t)) {
				return
			}
			w &= w - 1
		}
	}
}

// FromSlice builds a set from values.
func FromSlice32(v []uint32) *Set32 {
	s := NewSet32()
	for _, x := range v {
		s.Add(x)
	}
	return s
}

// Min/Max; ok=false when empty.
func (s *Set32) Min() (uint32, bool) {
	var r uint32
	ok := false
	s.Each(func(x uint32) bool { r, ok = x, true; return false })
	return r, ok
}

func (s *Set32) Max() (uint32, bool) {
	ks := s.Keys()
	if len(ks) == 0 {
		return 0, false
	}
	k := ks[len(ks)-1]
	c := s.m[k]
	for wi := 1023; wi >= 0; wi-- {
		if c[wi] != 0 {
			return uint32(k)<<16 | uint32(wi<<6+63-bits.LeadingZeros64(c[wi])), true
		}
	}
	return 0, false
}

// CountRange counts elements in [a,b).
func (s *Set32) CountRange(a, b uint64) uint64 {
	var n uint64
	rangePieces(a, b, func(k uint16, lo, hi uint32) {
		c := s.m[k]
		if c == nil {
			return
		}
		if lo == 0 && hi == 0xFFFF {
			n += uint64(s.ChunkCard(k))
			return
		}
		for i := lo; i <= hi; i++ {
			if c[i>>6]&(1<<(i&63)) != 0 {
				n++
			}
		}
	})
	return n
}

// Shift returns {v+d : v in s, 0 <= v+d < 2^32}.
func (s *Set32) Shift(d int64) *Set32 {
	n := NewSet32()
	s.Each(func(x uint32) bool {
		y := int64(x) + d
		if y >= 0 && y < 1<<32 {
			n.Add(uint32(y))
		}
		return true
	})
	return n
}
